#!/bin/bash
# usage: tools/sweep.sh "<seeds>" "<checks>"  - run quick checks for several seeds, print only the verdict lines
cd "$(dirname "$0")/.." || exit 2
for s in $1; do for c in $2; do
  echo "== seed $s check $c"; VERIF_SEED=$s ./check $c 2>&1 | grep -v "^KNOWN-FINDING" | grep "VIOLATION\|HARNESS\|OK prop\|oracle=\|quick:" ; done; done
