"""setup_cmd: verify that everything the checks need is present offline; create output directories."""

import importlib
import os
import shutil
import sys

VERIF = os.path.dirname(os.path.dirname(os.path.abspath(__file__)))


def main() -> int:
    bad = []
    for mod in ("lark", "click", "dateutil", "Cython", "setuptools"):
        try:
            importlib.import_module(mod)
        except Exception as e:
            bad.append(f"{mod}: {e}")
    for tool in ("gcc", "rsync"):
        if not shutil.which(tool):
            bad.append(f"{tool} not on PATH")
    if not hasattr(sys, "monitoring"):
        bad.append("sys.monitoring missing (need Python >= 3.12)")
    if not os.path.isdir(os.environ.get("SIMPLAN_REPO", "/repo") + "/scriptplan"):
        bad.append("repository not found")
    for d in ("evidence", "replays"):
        os.makedirs(os.path.join(VERIF, d), exist_ok=True)
    if bad:
        print("selfcheck FAILED:\n  " + "\n  ".join(bad))
        return 1
    print("selfcheck ok: python", sys.version.split()[0])
    return 0


if __name__ == "__main__":
    sys.exit(main())
