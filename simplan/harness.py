"""Shared front-end pieces of every check: known findings, replay files, evidence, exit protocol."""

from __future__ import annotations

import json
import os
import sys
import time

VERIF = os.path.dirname(os.path.dirname(os.path.abspath(__file__)))
KNOWN = os.path.join(VERIF, "known_findings.txt")
REAL_STUB = {
    "real": [
        "scratch snapshot of /repo's working tree: all of scriptplan (parser, model builder, scheduler, reports, cli.main, cli.plan)",
        "the three Cython extensions rebuilt from the current .pyx in the snapshot",
        "click, lark, dateutil; stdlib tempfile/shutil/pathlib/json/csv/logging logic",
        "kernel file system (tmpfs) under the world root; real processes (fork) with own address space",
    ],
    "controlled_or_stubbed": [
        "which simulated process runs next (coordinator, tape)",
        "outcome of a file-system call when a fault is injected (errno, short/torn data)",
        "directory listing order (sorted, then seeded permutation)",
        "tempfile name generator, secrets.token_hex, tempfile candidate directory list",
        "clock (time.time, datetime.now in scriptplan.utils.time / parser.macro_processor / utils.message_handler), os.getpid",
        "process start: fork of an imported-but-idle interpreter instead of exec",
        "sys.stdin / sys.stdout / sys.stderr plumbing (capture files, proxy streams)",
    ],
}


def load_known(prop: str) -> list[dict]:
    out = []
    if not os.path.exists(KNOWN):
        return out
    with open(KNOWN, encoding="utf-8") as f:
        for line in f:
            line = line.strip()
            if not line.startswith("KNOWN-FINDING:"):
                continue
            body = line[len("KNOWN-FINDING:") :].strip()
            parts = body.split(None, 2)
            kv = dict(x.split("=", 1) for x in parts[:2] if "=" in x)
            if kv.get("property") != prop or "sig" not in kv:
                continue
            out.append({"sig": kv["sig"], "line": line})
    return out


def split_known(prop: str, violations: list[dict]) -> tuple[list[dict], list[dict], list[str]]:
    """-> (new violations, known violations, KNOWN-FINDING lines hit)."""
    known = load_known(prop)
    sigs = {k["sig"]: k["line"] for k in known}
    new, old, lines = [], [], []
    for v in violations:
        if v.get("sig") in sigs:
            old.append(v)
            if sigs[v["sig"]] not in lines:
                lines.append(sigs[v["sig"]])
        else:
            new.append(v)
    return new, old, lines


def write_replay(prop: str, seed: int, payload: dict) -> str:
    d = os.path.join(VERIF, "replays")
    os.makedirs(d, exist_ok=True)
    from .tape import digest

    name = f"{prop}-{seed}-{digest(payload)[:10]}.json"
    path = os.path.join(d, name)
    with open(path, "w", encoding="utf-8") as f:
        json.dump(payload, f, indent=1, default=str)
    return path


def write_evidence(prop: str, tier: str, seed: int, coverage: dict, assumptions: list[str], wall_s: float, violations: int) -> str:
    d = os.path.join(VERIF, "evidence")
    if os.environ.get("SIMPLAN_REPO"):
        # a run against another tree (seeded change, mutant) must not overwrite the evidence of /repo
        d = os.path.join(VERIF, "scratch", "evidence-other-tree")
    os.makedirs(d, exist_ok=True)
    coverage.setdefault("real_vs_stub", REAL_STUB)
    ev = {
        "property_id": prop,
        "tier": tier,
        "seed": int(seed),
        "level": "exploration",
        "coverage": coverage,
        "assumptions": assumptions,
        "wall_s": round(wall_s, 2),
        "violations": int(violations),
    }
    path = os.path.join(d, f"{prop}.json")
    tmp = path + ".tmp"
    with open(tmp, "w", encoding="utf-8") as f:
        json.dump(ev, f, indent=1, default=str)
    os.replace(tmp, path)
    return path


def env_seed() -> int:
    try:
        return int(os.environ.get("VERIF_SEED", "0"))
    except ValueError:
        return 0


def env_budget(default: float) -> float:
    try:
        return float(os.environ.get("VERIF_BUDGET_S", default))
    except ValueError:
        return default


def finish(prop: str, violations_reported: list[tuple[dict, str]], known_lines: list[str], harness_errors: list[str]) -> int:
    """Print the protocol lines and return the exit status."""
    for ln in known_lines:
        print(ln)
    for v, path in violations_reported:
        print(f"VIOLATION property={prop} replay={path}")
        print(f"  oracle={v.get('oracle')} sig={v.get('sig')} :: {v.get('detail', '')[:300]}")
    for h in harness_errors[:10]:
        print(f"HARNESS-ERROR property={prop} {h[:500]}")
    if violations_reported:
        return 1
    if harness_errors:
        return 2
    print(f"OK property={prop}")
    return 0
