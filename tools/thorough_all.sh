#!/bin/bash
# usage: tools/thorough_all.sh [seed] ["checks"]  - thorough tier of each check, verdict lines only
cd "$(dirname "$0")/.." || exit 2
seed="${1:-0}"; checks="${2:-C11 C12 C13 C19 C20}"
for c in $checks; do
  echo "== thorough seed $seed check $c $(date +%H:%M:%S)"
  VERIF_SEED=$seed ./check $c --tier thorough 2>&1 | grep -v "^KNOWN-FINDING" | grep "VIOLATION\|HARNESS\|OK prop\|oracle=\|thorough:\|warning:" | cut -c1-400
done
echo "== done $(date +%H:%M:%S)"
