"""Self-tests of the machinery (DESIGN.md section 8): determinism, calibration of the fork model
against real processes, sensitivity to planted defects.

  ./check selftest --what determinism|calibrate|mutants|all [--quick]
"""

from __future__ import annotations

import argparse
import glob
import json
import os
import shutil
import subprocess
import sys
import time

from simplan import harness, snapshot
from simplan.pool import Pool

VERIF = harness.VERIF


def _job(mod, fn, cfg, args):
    return {"cfg": cfg, "mod": mod, "fn": fn, "args": args}


# ----------------------------------------------------------------------------- determinism


def determinism(snap, n_seeds: int, workers: int) -> dict:
    """Same (seed, index) executed twice on different workers and under different coordinator hash
    seeds / extension subsets: event logs (process world) and op logs (interpreter world) must be identical."""
    import checks.c11 as c11
    import checks.c19 as c19
    import checks.c20 as c20

    out = {}
    bad = []
    for mod, name in ((c20, "checks.c20"), (c19, "checks.c19")):
        cfgs = mod.CONFIGS
        pool = Pool(snap["path"], cfgs, total_workers=workers)
        jobs = []
        for idx in range(n_seeds):
            for c in range(len(cfgs)):
                for rep in range(2):
                    jobs.append(_job(name, "run_scenario", c, {"seed": 77, "idx": idx, "tier": "quick"}))
        res = pool.run(jobs)
        k = 0
        cmp = 0
        for idx in range(n_seeds):
            digs = []
            for c in range(len(cfgs)):
                for rep in range(2):
                    r = res[k]
                    k += 1
                    if r and r.get("ok") and not r["res"].get("harness"):
                        digs.append(r["res"]["log_digest"])
                    else:
                        bad.append(f"{name} idx {idx}: job failed: {str(r)[:200]}")
            cmp += len(digs)
            if len(set(digs)) > 1:
                bad.append(f"{name} idx {idx}: {len(set(digs))} different event logs over {len(digs)} executions (workers x hash seeds x extension subsets)")
        # the same scenarios again with a single worker process per configuration (another worker count)
        n1 = min(8, n_seeds)
        pool1 = Pool(snap["path"], cfgs, total_workers=len(cfgs))
        res1 = pool1.run([_job(name, "run_scenario", 0, {"seed": 77, "idx": idx, "tier": "quick"}) for idx in range(n1)])
        for idx in range(n1):
            r16 = res[idx * len(cfgs) * 2]
            r1 = res1[idx]
            if r1 and r1.get("ok") and r16 and r16.get("ok"):
                cmp += 1
                if r1["res"]["log_digest"] != r16["res"]["log_digest"]:
                    bad.append(f"{name} idx {idx}: event log differs between a 16-worker and a single-worker pool")
        out[name] = {"scenarios": n_seeds, "executions_compared": cmp, "worker_counts": [workers, len(cfgs)]}
    pool = Pool(snap["path"], c11.CONFIGS, total_workers=workers)
    jobs = [_job("checks.c11", "run_case", c, {"seed": 77, "idx": i}) for i in range(n_seeds * 4) for c in range(len(c11.CONFIGS)) for _ in range(2)]
    res = pool.run(jobs)
    k = 0
    cmp = 0
    for i in range(n_seeds * 4):
        per_cfg = []
        for c in range(len(c11.CONFIGS)):
            d = []
            for _ in range(2):
                r = res[k]
                k += 1
                if r and r.get("ok") and "log_digest" in r["res"]:
                    d.append(r["res"]["log_digest"])
            cmp += len(d)
            if len(set(d)) > 1:
                bad.append(f"c11 case {i} cfg {c}: step counts differ between two executions")
            per_cfg.append(d[0] if d else None)
    out["checks.c11"] = {"cases": n_seeds * 4, "executions_compared": cmp, "note": "step counts are compared within a configuration (native and pure-Python paths legitimately take different numbers of Python steps)"}
    out["failures"] = bad
    return out


# ----------------------------------------------------------------------------- calibration


def _listing(root):
    out = []
    for dp, dn, fn in os.walk(root):
        dn.sort()
        for d in dn:
            out.append(os.path.relpath(os.path.join(dp, d), root) + "/")
        for f in sorted(fn):
            out.append(os.path.relpath(os.path.join(dp, f), root))
    return sorted(out)


def calibrate(snap, n: int) -> dict:
    """Simulated solitary run (fork of the worker) vs. a true subprocess of the snapshot's plan entry point."""
    import random

    from simplan import cliworld

    pool = Pool(snap["path"], [{"hashseed": 0, "block": []}], total_workers=8)
    cases = []
    rng = random.Random("calibrate")
    for i in range(n):
        inp = cliworld.make_input(rng, f"c{i}", p_bad=0.35)
        inp["rel"] = "in/base_input.tjp"
        inp["arg_rel"] = "../in/base_input.tjp"
        ps = cliworld.make_proc(rng, inp, 0)
        if ps["channel"] == "file-abs":
            ps["argv"][-1] = "../in/base_input.tjp"
            ps["channel"] = "file"
        cases.append((inp, ps))
    jobs = [_job("checks.selftest", "sim_solitary", 0, {"inp": inp, "ps": ps}) for inp, ps in cases]
    sims = pool.run(jobs)
    bad = []
    compared = 0
    for (inp, ps), s in zip(cases, sims):
        if not s or not s.get("ok"):
            bad.append(f"sim job failed: {str(s)[:200]}")
            continue
        root = snapshot.new_scratch("real")
        try:
            for d in ("cwd", "tmp", "in"):
                os.makedirs(os.path.join(root, d))
            if inp["kind"] == "dir":
                os.makedirs(os.path.join(root, "in", "base_input.tjp"))
            elif inp["kind"] != "missing":
                with open(os.path.join(root, "in", "base_input.tjp"), "w", encoding="utf-8", newline="") as f:
                    f.write(inp["text"])
            argv = [a for a in ps["argv"][1:]]
            if ps["channel"] == "file":
                argv[-1] = "../in/base_input.tjp"
            env = dict(os.environ, PYTHONPATH=snap["path"], TMPDIR=os.path.join(root, "tmp"), PYTHONHASHSEED="0")
            before = _listing(root)
            p = subprocess.run([sys.executable, "-m", "scriptplan.cli.plan", *argv], cwd=os.path.join(root, "cwd"), env=env, input=(ps.get("stdin_text") or "").encode("utf-8") if ps["channel"].startswith("stdin") else None, stdin=None if ps["channel"].startswith("stdin") else subprocess.DEVNULL, capture_output=True, timeout=300)
            after = _listing(root)
            real = [p.returncode, p.stdout.decode("utf-8", "replace"), before == after]
        finally:
            snapshot.drop_scratch(root)
        sim = s["res"]
        compared += 1
        if "uses-clock-macro" in inp.get("tags", []) or "no-now" in inp.get("tags", []):
            real[1] = sim[1] = "<clock dependent>"
        if list(sim) != real:
            bad.append(f"argv {ps['argv']} kind {inp['kind']}: simulated (exit {sim[0]}, clean {sim[2]}) vs real (exit {real[0]}, clean {real[2]}), stdout equal={sim[1] == real[1]}")
    return {"compared": compared, "failures": bad}


def sim_solitary(args: dict):
    from simplan import cliworld

    return list(cliworld.baseline(args["inp"], args["ps"]))


# ----------------------------------------------------------------------------- mutants


def mutants(quick: bool) -> dict:
    """Apply each planted defect to a scratch copy of /repo and run the named check there."""
    results = []
    repo = os.environ.get("SIMPLAN_REPO", "/repo")
    metas = sorted(glob.glob(os.path.join(VERIF, "mutants", "*.json")))
    for meta_path in metas:
        meta = json.load(open(meta_path))
        patch = meta_path[:-5] + ".patch"
        scratch = snapshot.new_scratch("mut")
        try:
            subprocess.run(["rsync", "-a", "--exclude=.git", "--exclude=*.so", "--exclude=__pycache__", repo + "/", scratch + "/"], check=True)
            ap = subprocess.run(["patch", "-p1", "-s", "-i", patch], cwd=scratch, capture_output=True, text=True)
            if ap.returncode != 0:
                results.append({"mutant": meta["name"], "applied": False, "error": (ap.stdout + ap.stderr)[-300:]})
                continue
            for chk in meta["checks"]:
                t0 = time.time()
                env = dict(os.environ, SIMPLAN_REPO=scratch, VERIF_SEED=str(meta.get("seed", 0)))
                cmd = [os.path.join(VERIF, "check"), chk, "--tier", "quick"]
                if quick and meta.get("quick_count", {}).get(chk):
                    cmd += ["--count", str(meta["quick_count"][chk])]
                p = subprocess.run(cmd, env=env, capture_output=True, text=True, timeout=1800)
                vio = [ln for ln in p.stdout.splitlines() if ln.startswith("VIOLATION")]
                sigs = [ln.split("sig=")[1].split(" ::")[0] for ln in p.stdout.splitlines() if "sig=" in ln and "oracle=" in ln]
                results.append({"mutant": meta["name"], "check": chk, "applied": True, "caught": p.returncode == 1 and bool(vio), "exit": p.returncode, "sigs": sigs[:6], "seconds": round(time.time() - t0, 1), "expects": meta.get("expects")})
        finally:
            snapshot.drop_scratch(scratch)
    # the replay files written against mutated trees are not findings of the real tree
    return {"results": results, "missed": [r for r in results if not r.get("caught")]}


def main() -> int:
    ap = argparse.ArgumentParser()
    ap.add_argument("--what", default="all")
    ap.add_argument("--quick", action="store_true")
    ap.add_argument("--tier")
    ap.add_argument("--seeds", type=int)
    a = ap.parse_args()
    t0 = time.time()
    out: dict = {}
    rc = 0
    if a.what in ("determinism", "calibrate", "all"):
        snap = snapshot.make_snapshot(build=True)
    if a.what in ("determinism", "all"):
        out["determinism"] = determinism(snap, a.seeds or (6 if a.quick else 40), 16)
        if out["determinism"]["failures"]:
            rc = 2
    if a.what in ("calibrate", "all"):
        out["calibrate"] = calibrate(snap, 16 if a.quick else 60)
        if out["calibrate"]["failures"]:
            rc = 2
    if a.what in ("mutants", "all"):
        keep = os.path.join(VERIF, "replays")
        before = set(os.listdir(keep)) if os.path.isdir(keep) else set()
        out["mutants"] = mutants(a.quick)
        if os.path.isdir(keep):
            for f in set(os.listdir(keep)) - before:
                os.unlink(os.path.join(keep, f))
        if out["mutants"]["missed"]:
            rc = 2
    out["wall_s"] = round(time.time() - t0, 1)
    os.makedirs(os.path.join(VERIF, "evidence"), exist_ok=True)
    path = os.path.join(VERIF, "evidence", "selftest.json")
    prev = {}
    if os.path.exists(path):
        try:
            prev = json.load(open(path))
        except ValueError:
            prev = {}
    prev.update(out)
    json.dump(prev, open(path, "w"), indent=1)
    for k in ("determinism", "calibrate"):
        if k in out:
            print(k, "failures:", out[k]["failures"][:5] or "none", {x: y for x, y in out[k].items() if x != "failures"})
    if "mutants" in out:
        for r in out["mutants"]["results"]:
            print("mutant", r["mutant"], r.get("check"), "caught" if r.get("caught") else "MISSED", r.get("sigs"), r.get("seconds"))
    print("SELFTEST", "ok" if rc == 0 else "FAILED")
    return rc
