"""Process world: N simulated `plan` processes over one private file-system tree.

The worker process that calls run_world() is coordinator and zygote in one: every
simulated process is an os.fork() of it (own address space, real kernel FS), parked
at each seam event until the coordinator - driven by the tape - lets it continue.
Exactly one child runs at any time, so an execution is a pure function of
(spec, tape, code under test).
"""

from __future__ import annotations

import errno
import hashlib
import json
import os
import select
import shutil
import signal
import socket
import sys
import time

from . import snapshot
from .tape import Tape, digest

E = errno
FAULTS = {
    "open-r": [("open-r", E.EACCES), ("open-r", E.EIO), ("open-r", E.ENOENT), ("open-r", E.EMFILE)],
    "read": [("read", E.EIO), ("read", "short")],
    "open-w": [("create", E.ENOSPC), ("create", E.EACCES), ("create", E.EROFS), ("create", E.EMFILE)],
    "create": [("create", E.EEXIST), ("create", E.ENOSPC), ("create", E.EACCES), ("create", E.EROFS)],
    "mkdir": [("create", E.EEXIST), ("create", E.ENOSPC), ("create", E.EACCES)],
    "write": [("write", E.ENOSPC), ("write", E.EIO)],
    "flush": [("write", E.ENOSPC), ("write", E.EIO)],
    "close": [("write", E.ENOSPC), ("write", E.EIO), ("write", E.EDQUOT)],
    "scandir": [("list", E.EIO), ("list", E.EACCES)],
    "opendir": [("list", E.EACCES), ("list", E.EMFILE)],
    "unlink": [("remove", E.EACCES), ("remove", E.EBUSY)],
    "rmdir": [("remove", E.EACCES), ("remove", E.EBUSY)],
    "stat": [("stat", E.EACCES), ("stat", E.ENOENT)],
    "stdout-write": [("epipe", E.EPIPE)],
    "stdout-flush": [("epipe", E.EPIPE)],
    "stdin-read": [("stdin", "short")],
    "rename": [("create", E.EACCES)],
    "chmod": [],
    "start": [],
}
# persistent conditions (spec["persist"] = {"cls", "proc", "from"}): from the from-th seam event of process proc on (every
# process if proc is None) EVERY matching operation fails - a disk that stays full, a descriptor table that stays
# exhausted, a temp file system remounted read-only, a dying disk.  Not drawn from the tape: a pure function of the spec.
PERSIST = {
    "disk-full": {"write": ("write", E.ENOSPC), "flush": ("write", E.ENOSPC), "close": ("write", E.ENOSPC)},
    "disk-full-meta": {"write": ("write", E.ENOSPC), "flush": ("write", E.ENOSPC), "close": ("write", E.ENOSPC), "create": ("create", E.ENOSPC), "mkdir": ("create", E.ENOSPC), "open-w": ("create", E.ENOSPC)},
    "fd-exhausted": {"open-r": ("open-r", E.EMFILE), "open-w": ("create", E.EMFILE), "create": ("create", E.EMFILE), "opendir": ("list", E.EMFILE)},
    "read-only": {"create": ("create", E.EROFS), "mkdir": ("create", E.EROFS), "open-w": ("create", E.EROFS), "unlink": ("remove", E.EROFS), "rmdir": ("remove", E.EROFS), "rename": ("create", E.EROFS)},
    "io-dead": {"read": ("read", E.EIO), "open-r": ("open-r", E.EIO), "scandir": ("list", E.EIO)},
    "quota": {"close": ("write", E.EDQUOT), "flush": ("write", E.EDQUOT)},
}
ALL_KINDS = ["open-r", "read", "create", "write", "list", "remove", "stat", "epipe", "stdin", "sigint", "kill"]
POLICIES = ["seq", "rr", "random", "sticky", "pct", "race"]
CLOCK_JUMPS = [0.0, 86400.0, -86400.0, 400 * 86400.0, -3650 * 86400.0, 3600.0, -1.0, 20 * 365 * 86400.0]
MUTATING = {"create", "mkdir", "open-w", "unlink", "rmdir", "scandir", "rename"}
T0 = 1_750_000_000.0  # 2025-06-15T15:06:40Z


class HarnessError(Exception):
    pass


# ----------------------------------------------------------------------------- world


def build_world(spec: dict) -> str:
    root = snapshot.new_scratch("w")
    for d in ("cwd", "tmp", "alt-tmp", "in", "cap"):
        if spec.get("missing_tmp") and d in ("tmp", "alt-tmp"):
            continue  # knob: $TMPDIR and the system temp dirs do not exist; tempfile falls back to the cwd
        if spec.get("symlink_tmp") and d == "tmp":
            # knob: $TMPDIR is reached through a symbolic link (TMPDIR=/link -> /real/dir, macOS-style /tmp -> /private/tmp)
            os.makedirs(os.path.join(root, "tmp-real"))
            os.symlink("tmp-real", os.path.join(root, "tmp"))
            continue
        os.makedirs(os.path.join(root, d))
    for rel, text in sorted(spec.get("files", {}).items()):
        p = os.path.join(root, rel)
        os.makedirs(os.path.dirname(p), exist_ok=True)
        with open(p, "w", encoding="utf-8", newline="", errors="surrogateescape") as f:
            f.write(text)
    for rel, text in sorted(spec.get("decoys", {}).items()):
        p = os.path.join(root, rel.rstrip("/"))
        if rel.endswith("/"):
            os.makedirs(p, exist_ok=True)
        else:
            os.makedirs(os.path.dirname(p), exist_ok=True)
            with open(p, "w", encoding="utf-8", newline="") as f:
                f.write(text or "")
    return root


def listing(root: str) -> dict:
    out = {}
    for top in ("cwd", "tmp", "alt-tmp", "in"):
        base = os.path.join(root, top)
        if not os.path.isdir(base):
            continue
        for dirpath, dirnames, filenames in os.walk(base):
            dirnames.sort()
            for d in dirnames:
                out[os.path.relpath(os.path.join(dirpath, d), root) + "/"] = ["d"]
            for fn in sorted(filenames):
                p = os.path.join(dirpath, fn)
                try:
                    with open(p, "rb") as f:
                        b = f.read()
                    out[os.path.relpath(p, root)] = ["f", len(b), hashlib.sha256(b).hexdigest()[:12]]
                except OSError:
                    out[os.path.relpath(p, root)] = ["?"]
    return out


# ----------------------------------------------------------------------------- child


def _child_main(sock, i: int, ps: dict, root: str, cfg: dict) -> None:
    from . import seams as seams_mod

    code = 99
    try:
        try:
            import ctypes

            ctypes.CDLL(None).prctl(1, signal.SIGKILL)  # PR_SET_PDEATHSIG: never outlive the worker
        except Exception:
            pass
        try:
            import resource

            lim = int(os.environ.get("SIMPLAN_CHILD_AS_BYTES", 6 << 30))
            resource.setrlimit(resource.RLIMIT_AS, (lim, lim))
        except Exception:
            pass
        os.chdir(os.path.join(root, "cwd"))
        os.environ["TMPDIR"] = os.path.join(root, "tmp")
        for k in ("TEMP", "TMP", "PLAN_VERBOSE", "PLAN_OUTPUT_DIR"):
            os.environ.pop(k, None)
        if cfg.get("tz"):
            os.environ["TZ"] = cfg["tz"]
            time.tzset()
        cap = os.path.join(root, "cap")
        out_f = open(os.path.join(cap, f"{i}.out"), "w", encoding="utf-8", newline="")
        err_f = open(os.path.join(cap, f"{i}.err"), "w", encoding="utf-8", newline="")
        ccfg = dict(cfg)
        ccfg["name_seed"] = cfg["name_seeds"][i]
        S = seams_mod.ChildSeams(sock, i, root, ccfg)
        sys.stdout = seams_mod.StdoutProxy(S, out_f)
        sys.stderr = err_f
        stdin_text = ps.get("stdin_text")
        sys.stdin = seams_mod.StdinProxy(S, stdin_text if stdin_text is not None else "")
        sys.argv = [a.replace("{ABS}", root) for a in ps["argv"]]
        S.install()
        how = "exit"
        S.ask("start", "<proc>")
        if cfg.get("points"):
            from scriptplan.cli import plan as _plan_mod

            seams_mod.install_call_points(S, _plan_mod)
        try:
            from scriptplan.cli import plan

            plan.main()
            code = 0
        except SystemExit as e:
            c = e.code
            code = 0 if c is None else (c if isinstance(c, int) else 1)
        except KeyboardInterrupt:
            code = 130
            how = "kbd-uncaught"
        except BaseException as e:  # what the interpreter would print and exit 1
            import traceback

            try:
                traceback.print_exc(file=err_f)
            except Exception:
                pass
            code = 1
            how = "uncaught:" + type(e).__name__
        try:
            out_f.flush()
            err_f.flush()
        except Exception:
            pass
        S.tell({"p": i, "op": "exit", "code": code, "how": how})
    except BaseException as e:  # harness trouble inside the child
        try:
            sock.sendall(json.dumps({"p": i, "op": "child-error", "msg": f"{type(e).__name__}: {e}"}).encode() + b"\n")
        except Exception:
            pass
    finally:
        os._exit(0)


# ----------------------------------------------------------------------------- coordinator


class _Proc:
    def __init__(self, i, pid, sock):
        self.i = i
        self.pid = pid
        self.sock = sock
        self.buf = b""
        self.pending = None
        self.nev = 0
        self.exit = None
        self.how = None
        self.killed = False
        self.sigint = False
        self.faults: list = []
        self.hang = False
        self.last_fault_ev = -1
        self.last_rec = None
        self.npoint = 0


def _recv(p: _Proc, timeout: float):
    deadline = time.time() + timeout
    while b"\n" not in p.buf:
        left = deadline - time.time()
        if left <= 0:
            return None
        r, _, _ = select.select([p.sock], [], [], left)
        if not r:
            return None
        try:
            chunk = p.sock.recv(65536)
        except ConnectionResetError:
            chunk = b""
        if not chunk:
            return {"p": p.i, "op": "eof"}
        p.buf += chunk
    line, p.buf = p.buf.split(b"\n", 1)
    return json.loads(line)


def run_world(spec: dict, tape: Tape, keep_world: bool = False, event_timeout: float = 300.0) -> dict:
    """Execute one scenario.  Returns the full observable record."""
    root = build_world(spec)
    try:
        return _run(spec, tape, root, event_timeout)
    finally:
        if not keep_world:
            snapshot.drop_scratch(root)


def _run(spec, tape, root, event_timeout):
    procs_spec = spec["procs"]
    n = len(procs_spec)
    fcfg = spec.get("faults", {}) or {}
    kinds = set(fcfg.get("kinds", []))
    policy = spec.get("policy", "seq")
    perm_mode = spec.get("listing", "sorted") == "perm"
    clock_on = bool(spec.get("clock_jumps"))
    collide = bool(spec.get("collide"))
    t0 = float(spec.get("t0", T0))
    name_seeds = [("c" if collide else f"p{i}") + ":" + str(spec.get("name_salt", 0)) for i in range(n)]
    cfg = {"t0": t0, "name_seeds": name_seeds, "tz": spec.get("tz"), "points": bool(spec.get("points"))}
    initial = listing(root)

    # fault plan (generation mode only; replay reads the tape)
    plan: dict[int, dict[int, str | None]] = {i: {} for i in range(n)}
    persist = spec.get("persist")
    pin = spec.get("pin")  # systematic sweep: the ord-th applicable fault at event ev of process proc, nothing else
    if tape.generating and pin and "point" in pin:
        pass  # SIGINT at the point-th asynchronous-exception point (`point` / `after` event) of process proc
    elif tape.generating and pin:
        plan[pin["proc"]][pin["ev"]] = pin["ord"]
    elif tape.generating and kinds:
        rng = tape.rng
        for i in range(n):
            if rng.random() < fcfg.get("p_proc", 0.7):
                k = 1 + (rng.random() < fcfg.get("p_second", 0.25))
                for _ in range(k):
                    plan[i][rng.randrange(1, fcfg.get("horizon", 60))] = None
    pct_prio = None
    pct_points: set[int] = set()
    if tape.generating and policy == "pct":
        rng = tape.rng
        pct_prio = [rng.random() for _ in range(n)]
        pct_points = {rng.randrange(1, 40 * n + 2) for _ in range(max(1, n // 2))}

    procs: list[_Proc] = []
    parents = []
    for i, ps in enumerate(procs_spec):
        a, b = socket.socketpair()
        sys.stdout.flush()
        sys.stderr.flush()
        pid = os.fork()
        if pid == 0:
            a.close()
            for s in parents:
                try:
                    s.close()
                except Exception:
                    pass
            _child_main(b, i, ps, root, cfg)
            os._exit(0)
        b.close()
        parents.append(a)
        procs.append(_Proc(i, pid, a))

    events: list = []
    clock = t0
    seq = 0
    stats = {"faults_fired": {}, "switches": 0, "overlap_switches": 0, "clock_min": t0, "clock_max": t0, "perms": 0}
    harness_error = None

    def reap(p):
        try:
            os.waitpid(p.pid, 0)
        except ChildProcessError:
            pass
        try:
            p.sock.close()
        except Exception:
            pass

    try:
        # every child parks at "start"
        for p in procs:
            ev = _recv(p, event_timeout)
            if ev is None or ev.get("op") != "start":
                raise HarnessError(f"child {p.i} did not start: {ev}")
            p.pending = ev
        live = list(procs)
        last = None
        last_mut = None
        holding: set[int] = set()  # procs currently holding temp state (created something not yet removed)
        created_by: dict[str, int] = {}
        rr = 0
        max_events = spec.get("max_events", 4000 * n)
        while live:
            # ---- who continues
            idx_gen = None
            if tape.generating:
                m = len(live)

                def choose(rng, m=m):
                    nonlocal rr
                    if m == 1 or policy == "seq":
                        return 0
                    if policy == "rr":
                        rr += 1
                        return rr % m
                    if policy == "random":
                        return rng.randrange(m)
                    cur = next((k for k, q in enumerate(live) if q is last), None)
                    if policy == "sticky":
                        if cur is not None and rng.random() < 0.85:
                            return cur
                        return rng.randrange(m)
                    if policy == "race":
                        if cur is not None and last_mut is not last:
                            if rng.random() < 0.9:
                                return cur
                            return rng.randrange(m)
                        others = [k for k in range(m) if k != cur]
                        if others and rng.random() < 0.8:
                            return others[rng.randrange(len(others))]
                        return rng.randrange(m)
                    if policy == "pct":
                        if seq in pct_points and cur is not None:
                            pct_prio[live[cur].i] = -rng.random()
                        best = max(range(m), key=lambda k: pct_prio[live[k].i])
                        return best
                    return 0

                idx_gen = choose
            k = tape.draw(len(live), idx_gen)
            p = live[k]
            if last is not None and p is not last:
                stats["switches"] += 1
                if len(holding) >= 2:
                    stats["overlap_switches"] += 1
            last = p
            ev = p.pending
            op = ev["op"]
            path = ev.get("path", "")
            # ---- decision for this event
            applicable = [f for f in FAULTS.get(op, []) if f[0] in kinds]
            if op != "start" and not path.startswith("<outside"):
                if "sigint" in kinds:
                    applicable.append(("sigint", None))
                if "kill" in kinds and n > 1:
                    applicable.append(("kill", None))
            fgen = None
            if tape.generating:
                want = p.nev in plan[p.i] or plan[p.i].get(-1)

                def fgen(rng, want=want, applicable=applicable, p=p, op=op):
                    if pin and "point" in pin:
                        if p.i == pin["proc"] and op in ("point", "after") and p.npoint == pin["point"] and ("sigint", None) in applicable:
                            return 1 + applicable.index(("sigint", None))
                        return 0
                    if pin:
                        if p.i == pin["proc"] and p.nev == pin["ev"] and applicable:
                            return 1 + pin["ord"] % len(applicable)
                        return 0
                    if not want or not applicable:
                        if want:
                            plan[p.i][-1] = True  # slide to the next applicable event
                        return 0
                    plan[p.i].pop(-1, None)
                    return 1 + rng.randrange(len(applicable))

            fc = tape.draw(1 + len(applicable), fgen)
            reply = {"a": "ok"}
            fault = None
            if fc:
                fault = applicable[fc - 1]
                if fault[0] == "sigint":
                    reply = {"a": "sigint"}
                    p.sigint = True
                elif fault[0] == "kill":
                    reply = None
                elif fault[1] == "short":
                    reply = {"a": "short", "frac": [0.0, 0.5, 0.9][tape.draw(3)]}
                else:
                    reply = {"a": "err", "errno": fault[1], "frac": [0.0, 0.5, 0.9][tape.draw(3)]}
                p.faults.append({"ev": p.nev, "seq": seq, "op": op, "path": path, "kind": fault[0], "arg": fault[1]})
                if op in ("point", "after"):
                    p.faults[-1]["at"] = ev.get("callee") or ev.get("of") or ""
                p.last_fault_ev = p.nev
                key = f"{fault[0]}:{fault[1]}" + ("@point" if op in ("point", "after") else "")
                stats["faults_fired"][key] = stats["faults_fired"].get(key, 0) + 1
            if not fc and persist and (persist.get("proc") is None or persist["proc"] == p.i) and p.nev >= persist["from"] and op in PERSIST[persist["cls"]] and not path.startswith("<"):
                fault = PERSIST[persist["cls"]][op]
                reply = {"a": "err", "errno": fault[1], "frac": 0.0}
                p.faults.append({"ev": p.nev, "seq": seq, "op": op, "path": path, "kind": fault[0], "arg": fault[1], "persist": persist["cls"]})
                p.last_fault_ev = p.nev
                key = f"persist-{persist['cls']}:{fault[1]}"
                stats["faults_fired"][key] = stats["faults_fired"].get(key, 0) + 1
            if reply is not None and op == "scandir" and perm_mode and reply["a"] == "ok":
                pv = tape.draw(1000)
                reply["perm"] = pv
                if pv:
                    stats["perms"] += 1
            if clock_on:
                j = tape.draw(len(CLOCK_JUMPS), lambda rng: rng.randrange(len(CLOCK_JUMPS)) if rng.random() < 0.15 else 0)
                clock += CLOCK_JUMPS[j]
            clock += 0.001
            stats["clock_min"] = min(stats["clock_min"], clock)
            stats["clock_max"] = max(stats["clock_max"], clock)
            if reply is not None:
                reply["clk"] = clock
            rec = [seq, p.i, op, path, (reply or {"a": "kill"})["a"], (fault[1] if fault else None), None]
            p.last_rec = rec
            if ev.get("dst"):
                rec.append(ev["dst"])
            if reply is not None and reply.get("perm"):
                rec.append("perm=%d" % reply["perm"])
            events.append(rec)
            seq += 1
            p.nev += 1
            if op in ("point", "after"):
                p.npoint += 1
                stats["point_events"] = stats.get("point_events", 0) + 1
            ok = reply is not None and reply["a"] in ("ok", "short")
            if ok and op in MUTATING:
                last_mut = p
            else:
                last_mut = None if last_mut is p else last_mut
            if reply is None:  # kill
                os.kill(p.pid, signal.SIGKILL)
                p.killed = True
                reap(p)
                live.remove(p)
                holding.discard(p.i)
                continue
            p.sock.sendall(json.dumps(reply).encode() + b"\n")
            nxt = _recv(p, event_timeout)
            if nxt is None:
                p.hang = True
                os.kill(p.pid, signal.SIGKILL)
                reap(p)
                live.remove(p)
                holding.discard(p.i)
                continue
            if p.last_rec is not None:
                p.last_rec[6] = nxt.get("r")  # natural outcome of the real call (0, errno, None: no call made)
                if ok and nxt.get("r") == 0 and op in ("create", "mkdir", "open-w") and not path.startswith("<"):
                    # creator bookkeeping: who made the entry that currently has this name
                    if op != "open-w" or path not in created_by:
                        created_by[path] = p.i
                    holding.add(p.i)
                if ok and nxt.get("r") == 0 and op in ("unlink", "rmdir"):
                    created_by.pop(path, None)
            if nxt["op"] == "exit":
                p.exit = nxt["code"]
                p.how = nxt.get("how")
                reap(p)
                live.remove(p)
                holding.discard(p.i)
                events.append([seq, p.i, "exit", "", p.exit, p.how])
                seq += 1
                continue
            if nxt["op"] in ("eof", "child-error"):
                harness_error = f"child {p.i}: {nxt}"
                reap(p)
                live.remove(p)
                continue
            p.pending = nxt
            if p.nev > max_events:
                p.hang = True
                os.kill(p.pid, signal.SIGKILL)
                reap(p)
                live.remove(p)
    finally:
        for p in procs:
            if p.exit is None and not p.killed and not p.hang:
                try:
                    os.kill(p.pid, signal.SIGKILL)
                except ProcessLookupError:
                    pass
                reap(p)
    final = listing(root)
    result_procs = []
    for p in procs:
        try:
            with open(os.path.join(root, "cap", f"{p.i}.out"), encoding="utf-8", newline="") as f:
                out = f.read()
        except OSError:
            out = ""
        try:
            with open(os.path.join(root, "cap", f"{p.i}.err"), encoding="utf-8", newline="", errors="replace") as f:
                err = f.read()
        except OSError:
            err = ""
        result_procs.append(
            {
                "i": p.i,
                "exit": p.exit,
                "how": p.how,
                "stdout": out,
                "stderr": err,
                "nev": p.nev,
                "faults": p.faults,
                "killed": p.killed,
                "sigint": p.sigint,
                "hang": p.hang,
                "events_after_last_fault": (p.nev - 1 - p.last_fault_ev) if p.last_fault_ev >= 0 else p.nev,
            }
        )
    ilv = digest([[e[1], e[2], _pclass(e[3])] for e in events])
    return {
        "initial": initial,
        "final": final,
        "events": events,
        "procs": result_procs,
        "created_by": created_by,
        "stats": stats,
        "tape": list(tape.rec),
        "log_digest": digest(events),
        "interleaving": ilv,
        "harness_error": harness_error,
    }


def _pclass(path: str) -> str:
    """Path class: random name parts normalised away."""
    if not path:
        return ""
    parts = path.split("/")
    out = []
    for s in parts:
        if s.startswith("plan_auto_") and s.endswith(".tjp"):
            out.append("plan_auto_*.tjp")
        elif s.startswith("plan_auto_"):
            out.append("plan_auto_*" + os.path.splitext(s)[1])
        elif s.startswith("plan_stdin_"):
            out.append("plan_stdin_*.tjp")
        elif s.startswith("plan_output_"):
            out.append("plan_output_*")
        else:
            out.append(s)
    return "/".join(out)
