"""Pool of worker interpreters, grouped by configuration (hash seed, blocked extensions).

Jobs name the configuration they need; within a configuration workers are
interchangeable, so which worker serves a job cannot influence its result.
"""

from __future__ import annotations

import collections
import json
import os
import select
import subprocess
import sys
import threading
import time

VERIF = os.path.dirname(os.path.dirname(os.path.abspath(__file__)))


class WorkerDied(Exception):
    pass


class _Worker:
    def __init__(self, snap_path: str, cfg: dict):
        env = dict(os.environ)
        env["PYTHONPATH"] = snap_path + os.pathsep + VERIF
        env["PYTHONHASHSEED"] = str(cfg.get("hashseed", 0))
        env["SIMPLAN_BLOCK_EXT"] = ",".join(cfg.get("block", []))
        env["PYTHONDONTWRITEBYTECODE"] = "1"
        env.pop("SCRIPTPLAN_VERIF", None)
        if cfg.get("env"):
            env.update(cfg["env"])
        self.cfg = cfg
        self.p = subprocess.Popen(
            [sys.executable, "-X", "faulthandler", "-m", "simplan.worker"],
            stdin=subprocess.PIPE,
            stdout=subprocess.PIPE,
            stderr=subprocess.PIPE if cfg.get("capture_stderr") else None,
            env=env,
            cwd=VERIF,
            text=True,
            bufsize=1,
        )
        self.info = self._read(60)
        if not self.info.get("ready"):
            raise WorkerDied(f"worker failed to start: {self.info}")
        if snap_path not in self.info.get("scriptplan", ""):
            raise WorkerDied(f"worker imported scriptplan from {self.info.get('scriptplan')}, not the snapshot")

    def _read(self, timeout: float) -> dict:
        r, _, _ = select.select([self.p.stdout], [], [], timeout)
        if not r:
            raise WorkerDied("timeout")
        line = self.p.stdout.readline()
        if not line:
            raise WorkerDied(f"eof (rc={self.p.poll()})")
        return json.loads(line)

    def call(self, job: dict, timeout: float) -> dict:
        self.p.stdin.write(json.dumps({"mod": job["mod"], "fn": job["fn"], "args": job["args"]}) + "\n")
        self.p.stdin.flush()
        return self._read(timeout)

    def close(self):
        try:
            self.p.stdin.write('{"quit": true}\n')
            self.p.stdin.flush()
            self.p.wait(5)
        except Exception:
            pass
        if self.p.poll() is None:
            self.p.kill()
            self.p.wait()


class Pool:
    def __init__(self, snap_path: str, configs: list[dict], total_workers: int | None = None):
        self.snap = snap_path
        self.configs = configs
        self.total = total_workers or min(16, os.cpu_count() or 4)
        self.worker_infos: list[dict] = []

    def run(self, jobs: list[dict], wall_cap: float | None = None, job_timeout: float = 900.0, on_result=None) -> list:
        """jobs: [{"cfg": int, "mod", "fn", "args"}].  Returns a list aligned with jobs;
        entries are the worker's answer dict, {"ok": False, "harness": ...} or None (not run: wall cap)."""
        t_end = time.time() + wall_cap if wall_cap else None
        queues: dict[int, collections.deque] = collections.defaultdict(collections.deque)
        for j, job in enumerate(jobs):
            queues[job.get("cfg", 0)].append(j)
        used = sorted(queues)
        # distribute workers over used configs proportionally to their queue length
        alloc = {c: 1 for c in used}
        spare = max(0, self.total - len(used))
        tot = sum(len(queues[c]) for c in used) or 1
        for c in used:
            alloc[c] += int(spare * len(queues[c]) / tot)
        for c in used:
            alloc[c] = max(1, min(alloc[c], len(queues[c])))
        results: list = [None] * len(jobs)
        lock = threading.Lock()
        stop = threading.Event()

        def serve(c: int):
            w = None
            try:
                while not stop.is_set():
                    with lock:
                        if not queues[c] or (t_end and time.time() > t_end):
                            return
                        j = queues[c].popleft()
                    if w is None:
                        try:
                            w = _Worker(self.snap, self.configs[c])
                            with lock:
                                self.worker_infos.append({"cfg": c, **{k: w.info.get(k) for k in ("hashseed", "block", "native")}})
                        except Exception as e:
                            results[j] = {"ok": False, "harness": f"worker start: {e}"}
                            continue
                    try:
                        results[j] = w.call(jobs[j], job_timeout)
                    except WorkerDied as e:
                        results[j] = {"ok": False, "harness": f"worker died on job {j}: {e}"}
                        try:
                            w.close()
                        except Exception:
                            pass
                        w = None
                    if on_result:
                        with lock:
                            on_result(j, results[j])
            finally:
                if w is not None:
                    w.close()

        threads = []
        for c in used:
            for _ in range(alloc[c]):
                t = threading.Thread(target=serve, args=(c,), daemon=True)
                t.start()
                threads.append(t)
        for t in threads:
            t.join()
        return results
