"""C20 - CLI runs leave no trace and do not interfere with each other.

N simulated `plan report` processes share one cwd and one TMPDIR; a seeded scheduler
interleaves every file-system operation, injects faults, interrupts and kills.
Oracles: [cwd-create] [leftover] [bytes] [faulted] [progress]  (DESIGN.md 5.1)
"""

from __future__ import annotations

import random

from simplan import cliworld, gen, procworld
from simplan.seams import PROBE_PREFIX
from simplan.tape import Tape, rng_for

PROP = "C20"
K_PROGRESS = 1500  # seam events a process may still need after its last fault (fault-free max is < 200)
FAULT_KINDS = ["open-r", "read", "create", "write", "list", "remove", "stat", "epipe", "stdin", "sigint", "kill"]
ALLOWED_EXIT_FAULTED = {0, 1, 2, 130}


SWEEP_EVENTS = 64
SWEEP_ORDS = 5  # fault ordinals tried per event (the longest applicable list has 4 errnos + sigint)


def gen_sweep_spec(seed: int, q: int, idx: int):
    """Systematic fault placement: one valid input, process 0 receives exactly the ord-th applicable fault at its
    ev-th seam event; a fault-free peer on the same input (and an unrelated one) runs concurrently under a
    seeded policy, so interference from failure paths is covered too."""
    per = SWEEP_EVENTS * SWEEP_ORDS
    b, r = divmod(q, per)
    rng = rng_for(PROP, seed, f"sweep-base-{b}")
    inp = gen.gen_project(rng, reports="always")
    inp.update(name="p0", kind="ok")
    other = gen.gen_project(rng, reports="mixed")
    other.update(name="p1", kind="ok")
    spec = {"files": {}, "decoys": {}, "procs": [], "prop": PROP, "idx": idx, "sweep": q}
    cliworld.place_inputs(rng, [inp, other], spec)
    cliworld.add_decoys(rng, spec, 0.5, ["p0", "p1"])
    spec["procs"].append(cliworld.make_proc(rng, inp, 0))
    spec["procs"].append(cliworld.make_proc(rng, inp, 1))
    if b % 2:
        spec["procs"].append(cliworld.make_proc(rng, other, 2))
    prng = rng_for(PROP, seed, f"sweep-{q}")
    spec.update(policy=prng.choice(["seq", "random", "race", "sticky"]), listing="perm", collide=b % 3 == 2, name_salt=b % 4, clock_jumps=False, t0=procworld.T0)
    kinds = [k for k in FAULT_KINDS if k != "kill"]
    spec["faults"] = {"kinds": kinds, "p_proc": 1.0, "p_second": 0.0, "horizon": SWEEP_EVENTS}
    spec["pin"] = {"proc": 0, "ev": 1 + r % SWEEP_EVENTS, "ord": r // SWEEP_EVENTS}  # ordinal-major: every event gets its first fault first
    return spec, [inp, other], prng


LINE_SWEEP = 56  # asynchronous-exception points of one run (returns from C calls and function entries in plan.py, `after` events)


def gen_line_sweep_spec(seed: int, q: int, idx: int):
    """SIGINT where the interpreter really acts on it: process 0 is interrupted at its k-th asynchronous-exception
    point (a call into C made by plan.py has returned, a function of plan.py is entered, a creating / removing
    system call has returned), for every k; inputs include failing ones, half of the bases have a concurrent peer."""
    b, k = divmod(q, LINE_SWEEP)
    rng = rng_for(PROP, seed, f"line-base-{b}")
    if b % 3 == 2:
        inp = cliworld.make_input(rng, "p0", p_bad=0.7)  # failure paths: fewer points, other handlers
    else:
        inp = gen.gen_project(rng, reports="always")
        inp.update(name="p0", kind="ok")
    spec = {"files": {}, "decoys": {}, "procs": [], "prop": PROP, "idx": idx, "line_sweep": q}
    cliworld.place_inputs(rng, [inp], spec)
    cliworld.add_decoys(rng, spec, 0.5, ["p0"])
    spec["procs"].append(cliworld.make_proc(rng, inp, 0))
    if b % 2:
        spec["procs"].append(cliworld.make_proc(rng, inp, 1))
    prng = rng_for(PROP, seed, f"line-{q}")
    spec.update(policy=prng.choice(["seq", "random", "sticky"]), listing="perm", collide=False, name_salt=b % 4, clock_jumps=False, t0=procworld.T0, points=True)
    spec["faults"] = {"kinds": ["sigint"], "p_proc": 1.0, "p_second": 0.0, "horizon": 400}
    spec["pin"] = {"proc": 0, "point": k}
    return spec, [inp], prng


def gen_spec(seed: int, idx: int, tier: str) -> tuple[dict, list[dict], random.Random]:
    if idx % 4 == 3:
        return gen_sweep_spec(seed, idx // 4, idx)
    if idx % 8 == 1:
        return gen_line_sweep_spec(seed, idx // 8, idx)
    rng = rng_for(PROP, seed, idx)
    big = tier == "thorough"
    r = rng.random()
    if r < 0.3:
        n = 1
    elif r < 0.85:
        n = rng.randrange(2, 5)
    else:
        n = rng.randrange(4, 13 if big else 7)
    if big and idx % 400 == 399:
        n = 100
    k_inputs = 1 if rng.random() < 0.35 else rng.randrange(1, min(4, n) + 1)
    inputs = [cliworld.make_input(rng, f"p{j}", p_bad=0.25) for j in range(k_inputs)]
    for j, inp in enumerate(inputs):
        cliworld.byte_variants(rng_for(PROP, seed, f"bytes-{idx}-{j}"), inp)
    spec = {"files": {}, "decoys": {}, "procs": [], "prop": PROP, "idx": idx}
    cliworld.place_inputs(rng, inputs, spec)
    cliworld.add_decoys(rng, spec, 0.5, [i["name"] for i in inputs])
    for i in range(n):
        inp = inputs[rng.randrange(len(inputs))]
        spec["procs"].append(cliworld.make_proc(rng, inp, i))
    spec["policy"] = rng.choice(procworld.POLICIES) if n > 1 else "seq"
    spec["listing"] = "perm" if rng.random() < 0.5 else "sorted"
    spec["collide"] = rng.random() < 0.3
    spec["name_salt"] = rng.randrange(4)
    spec["clock_jumps"] = rng.random() < 0.2
    spec["missing_tmp"] = rng.random() < 0.04
    if spec["missing_tmp"]:
        spec["decoys"] = {k: v for k, v in spec["decoys"].items() if not k.startswith(("tmp/", "alt-tmp/"))}
    spec["symlink_tmp"] = (not spec["missing_tmp"]) and rng.random() < 0.06
    spec["t0"] = procworld.T0 + rng.choice([0, 0, 86400 * 200, -86400 * 3000, 86400 * 9000])
    if rng.random() < 0.3:
        kinds = []
    else:
        kinds = [k for k in FAULT_KINDS if rng.random() < 0.3]
    spec["faults"] = {"kinds": kinds, "p_proc": rng.choice([0.3, 0.6, 1.0]), "p_second": 0.25, "horizon": rng.choice([15, 30, 48])}
    # persistent conditions (own stream, so the scenarios generated before this knob existed are unchanged)
    prng = rng_for(PROP, seed, f"persist-{idx}")
    if prng.random() < 0.12:
        np_ = len(spec["procs"])
        spec["persist"] = {"cls": prng.choice(sorted(procworld.PERSIST)), "proc": None if prng.random() < 0.4 else prng.randrange(np_), "from": prng.choice([0, 0, 3, 8]) if prng.random() < 0.3 else prng.randrange(0, 70)}
    elif prng.random() < 0.08:
        # statement-granular pre-emption (and SIGINT between statements, if enabled) in random scenarios too
        spec["points"] = True
        spec["faults"]["horizon"] *= 4
        spec["faults"]["p_second"] = 0.0
    return spec, inputs, rng


# ----------------------------------------------------------------------------- oracles


def _alive_at(events: list, proc: int, seq: int) -> bool:
    """True if proc had not exited / been killed before event number seq."""
    for ev in events:
        if ev[0] >= seq:
            return True
        if ev[1] == proc and (ev[2] == "exit" or ev[4] == "kill"):
            return False
    return True


def _top_entry(path: str) -> str:
    parts = path.split("/")
    return "/".join(parts[:2])


def _v(oracle, sig, detail, proc=None):
    return {"oracle": oracle, "sig": f"{oracle}|{sig}", "detail": detail, "proc": proc}


def oracles(spec: dict, inputs: list[dict], r: dict, base: list) -> list[dict]:
    V = []
    by_name = {i["name"]: i for i in inputs}
    procs = r["procs"]
    events = r["events"]
    # ---- which faults hit which process where
    create_fault_roots = {p["i"]: set() for p in procs}
    excused_tops: set[str] = set()
    excused_paths: set[str] = set()
    prev_op = {}
    for ev in events:
        seq, pi, op, path, act = ev[:5]
        if op == "exit":
            continue
        if op == "unlink" and act in ("err", "sigint", "kill") and path.split("/")[-1].startswith(PROBE_PREFIX):
            # tempfile's own writability probe, interrupted between its create and its unlink inside the
            # stdlib: not a file scriptplan created or could know about
            excused_paths.add(path)
        natural_fail = act == "ok" and ev[6] not in (0, None) and op == "create" and path.split("/")[-1].startswith(PROBE_PREFIX) and ev[6] != 17
        if natural_fail or act == "err" and (op in ("create", "mkdir", "open-w") or path.split("/")[-1].startswith(PROBE_PREFIX)):
            # a temp candidate the stdlib gives up on: failed create, or any failure on its writability probe
            create_fault_roots[pi].add(path.split("/")[0])
        if act in ("err", "sigint"):
            # the entry whose own removal step (stat / opendir / scandir-after-opendir / unlink / rmdir)
            # was made to fail or was interrupted - and nothing else
            if op in ("unlink", "rmdir", "opendir", "stat") or (op == "scandir" and prev_op.get(pi) == ("opendir", path)):
                excused_tops.add(_top_entry(path))
            if op == "after" and act == "sigint" and prev_op.get(pi, ("", ""))[0] in ("unlink", "rmdir"):
                excused_tops.add(_top_entry(path))  # same thing, the signal acted upon right after the removing call returned
            if op == "after" and act == "sigint" and path.split("/")[-1].startswith(PROBE_PREFIX):
                excused_paths.add(path)  # tempfile's own writability probe, interrupted between its create and its unlink
        prev_op[pi] = (op, path)
    for p in procs:
        if p["killed"]:
            for path, who in r["created_by"].items():
                if who == p["i"]:
                    excused_paths.add(path)
                    excused_tops.add(_top_entry(path))
    # ---- [cwd-create]
    for ev in events:
        seq, pi, op, path, act = ev[:5]
        if act not in ("ok", "short") or ev[6] != 0:
            continue
        tgt = None
        if op in ("create", "mkdir", "open-w", "unlink", "rmdir") and path.startswith("cwd/"):
            tgt = path
        elif op == "rename" and ((len(ev) > 7 and str(ev[7]).startswith("cwd/")) or path.startswith("cwd/")):
            tgt = path
        if tgt is None:
            continue
        if {"tmp", "alt-tmp"} <= create_fault_roots[pi]:
            continue  # stdlib fell back to cwd because every temp candidate was made unusable
        V.append(_v("cwd-create", f"{op}|{procworld._pclass(tgt)}", f"proc {pi} {op} {tgt} at seq {seq}", pi))
        break
    # ---- [isolation] no process ever touches a temp entry that currently belongs to another live run
    owner: dict[str, int] = {}
    flagged_iso = False
    for ev in events:
        seq, pi, op, path, act = ev[:5]
        if op in ("exit", "start") or path.startswith("<") or act not in ("ok", "short"):
            continue
        natural = ev[6]
        top = _top_entry(path)
        if path.split("/")[0] in ("tmp", "alt-tmp", "tmp-real") and "/" in path:
            if op in ("create", "mkdir", "open-w") and natural == 0 and path == top and top not in owner:
                owner[top] = pi
            elif owner.get(top) is not None and owner[top] != pi and natural == 0 and not flagged_iso and op in ("open-w", "create", "mkdir", "unlink", "rmdir", "rename"):
                # destructive access only: merely looking at a peer's entry does not by itself break the property
                if _alive_at(events, owner[top], seq):
                    if path.split("/")[-1].startswith("escaped_") and any(i.get("kind") == "escape" for i in inputs):
                        V.append(_v("isolation", "escape-report", f"proc {pi} {op} {path} at seq {seq}: the report file that escaped the per-run directory of proc {owner[top]} has the same name for every run", pi))
                        flagged_iso = True
                        continue
                    V.append(_v("isolation", f"{op}|{procworld._pclass(path)}", f"proc {pi} {op} {path} at seq {seq}: the entry belongs to the live run of proc {owner[top]}", pi))
                    flagged_iso = True
            if op in ("unlink", "rmdir", "rename") and natural == 0 and path == top:
                owner.pop(top, None)  # (a rename moves the entry away; the new name, if below a temp root, is unowned)
    # ---- [leftover] (covers [decoy]: foreign entries must be untouched)
    ini, fin = r["initial"], r["final"]
    left: dict = {}
    for path in sorted(set(ini) | set(fin)):
        a, b = ini.get(path), fin.get(path)
        if a == b:
            continue
        key = path.rstrip("/")
        if a is None:
            if _top_entry(key) in excused_tops or key in excused_paths:
                continue
            who = r["created_by"].get(key)
            why = "?"
            if who is not None:
                pr = procs[who]
                why = "sigint" if pr["sigint"] else ("faulted" if pr["faults"] else f"exit{pr['exit']}")
                sig_faults = [f for f in pr["faults"] if f["kind"] == "sigint"]
                if pr["sigint"] and sig_faults and sig_faults[-1]["op"] == "point":
                    # interrupted between two instructions of plan.py: the site is part of the signature
                    why = "sigint-at-point|" + sig_faults[-1]["path"].strip("<>").split(":")[1] + "|after-" + sig_faults[-1].get("at", "")
                elif pr["sigint"] and sig_faults and sig_faults[-1]["op"] == "after":
                    why = "sigint-at-point|after-" + sig_faults[-1].get("at", "") + "|" + procworld._pclass(sig_faults[-1]["path"]).split("/")[-1]
                inp = by_name.get(spec["procs"][who]["input"], {})
                if not pr["faults"]:
                    why += "|" + inp.get("kind", "?")
                if inp.get("kind") == "escape" and key.split("/")[-1].startswith("escaped_"):
                    why = "escape-report"
            left.setdefault((why, who), []).append(path)
        elif key.split("/")[-1].startswith("escaped_") and any(i.get("kind") == "escape" for i in inputs):
            left.setdefault(("escape-report", None), []).append(path)
        elif b is None:
            V.append(_v("decoy", f"removed|{procworld._pclass(key)}", f"pre-existing {path} was removed"))
        else:
            V.append(_v("decoy", f"modified|{procworld._pclass(key)}", f"pre-existing {path} was modified"))
    for (why, who), paths in left.items():
        V.append(_v("leftover", why, f"left behind by proc {who}: {paths}", who))
    # ---- [bytes] / [faulted] / [progress]
    for p in procs:
        i = p["i"]
        ps = spec["procs"][i]
        inp = by_name[ps["input"]]
        if p["hang"]:
            V.append(_v("progress", "hang", f"proc {i} did not reach another seam event / exit", i))
            continue
        if p["killed"]:
            continue
        if p["events_after_last_fault"] > K_PROGRESS:
            V.append(_v("progress", "events", f"proc {i} needed {p['events_after_last_fault']} events after its last fault", i))
        b = base[i]
        clocky = bool(spec.get("clock_jumps")) and "uses-clock-macro" in inp.get("tags", [])
        if not p["faults"]:
            if clocky and p["exit"] == b[0]:
                continue  # ${today}/${now} make this input a function of (text, date); the date was moved
            if (p["exit"], p["stdout"]) != (b[0], b[1]):
                what = "exit" if p["exit"] != b[0] else "stdout"
                V.append(_v("bytes", f"{what}|{inp['kind']}", f"proc {i} ({ps['argv']}) exit={p['exit']} vs solitary {b[0]}; stdout equal={p['stdout'] == b[1]}", i))
        else:
            kinds = {f["kind"] for f in p["faults"]}
            short = any(f["arg"] == "short" for f in p["faults"])
            if p["exit"] not in ALLOWED_EXIT_FAULTED:
                V.append(_v("faulted", f"exit{p['exit']}|{'+'.join(sorted(kinds))}", f"proc {i} exit {p['exit']} after faults {p['faults']}", i))
            if "sigint" in kinds and p["exit"] == 0:
                V.append(_v("faulted", "sigint-exit0", f"proc {i} exit 0 after SIGINT", i))
            if not short and not clocky and p["stdout"] not in ("", b[1]):
                V.append(_v("faulted", f"stdout|{'+'.join(sorted(kinds))}", f"proc {i} printed something that is neither nothing nor the solitary report after faults {p['faults']}", i))
    return V


# ----------------------------------------------------------------------------- worker side


def _execute(spec, inputs, tape):
    by_name = {i["name"]: i for i in inputs}
    base = [cliworld.baseline(by_name[ps["input"]], ps, spec.get("t0")) for ps in spec["procs"]]
    r = procworld.run_world(spec, tape)
    if r["harness_error"]:
        return r, [], r["harness_error"]
    return r, oracles(spec, inputs, r, base), None


def _summary(spec, inputs, r, V, herr):
    st = r["stats"]
    nfault = sum(len(p["faults"]) for p in r["procs"])
    fsig = sorted((f["kind"], str(f["arg"]), f["op"]) for p in r["procs"] for f in p["faults"])
    return {
        "idx": spec.get("idx"),
        "viol": V,
        "harness": herr,
        "log_digest": r["log_digest"],
        "interleaving": r["interleaving"],
        "fault_sig": fsig,
        "nontrivial": bool(st["overlap_switches"] > 0 or nfault > 0),
        "n": len(spec["procs"]),
        "events": len(r["events"]),
        "faults_fired": st["faults_fired"],
        "switches": st["switches"],
        "overlap_switches": st["overlap_switches"],
        "perms": st["perms"],
        "point_events": st.get("point_events", 0),
        "clock_span": st["clock_max"] - st["clock_min"],
        "kinds_enabled": spec["faults"]["kinds"],
        "policy": spec["policy"],
        "exits": [p["exit"] for p in r["procs"]],
        "input_kinds": [i["kind"] for i in inputs],
        "probes": _probes(spec, inputs, r),
        "tape": r["tape"],
    }


def _probes(spec, inputs, r):
    pr = {}

    def hit(k):
        pr[k] = pr.get(k, 0) + 1

    for p in r["procs"]:
        e = p["stderr"]
        if "Error: File not found" in e or "Error: Not a file" in e or "Error: File is empty" in e or "No input provided" in e:
            hit("except-FileNotFoundError")
        elif "Unexpected error" in e:
            hit("except-Exception")
        elif "Error:" in e:
            hit("except-ReportGenerationError")
        if "Aborted!" in e:
            hit("click-abort")
        if "Fatal error" in e:
            hit("main-fatal")
        if p["exit"] == 0:
            hit("success")
        if p["killed"]:
            hit("killed")
    evs = r["events"]
    creates = {}
    for ev in evs:
        if ev[2] in ("create", "mkdir") and ev[4] == "err" and ev[5] == 17:
            hit("injected-EEXIST")
        if ev[2] in ("create", "mkdir") and ev[4] == "ok":
            creates[ev[3]] = creates.get(ev[3], 0) + 1
        if ev[2] in ("create", "mkdir") and ev[4] == "ok" and ev[3].startswith("cwd/"):
            hit("tmp-fallback-to-cwd")
        if ev[2] in ("create", "mkdir") and ev[4] == "ok" and ev[3].startswith("alt-tmp/"):
            hit("tmp-fallback-to-alt")
    return pr


def run_scenario(args: dict) -> dict:
    spec, inputs, rng = gen_spec(args["seed"], args["idx"], args["tier"])
    tape = Tape(rng)
    r, V, herr = _execute(spec, inputs, tape)
    s = _summary(spec, inputs, r, V, herr)
    if V or args.get("want_spec"):
        s["spec"] = spec
        s["inputs"] = inputs
        s["events_log"] = r["events"]
    elif args.get("sample"):
        s["sample"] = {"procs": [ps["argv"] for ps in spec["procs"]], "policy": spec["policy"], "kinds": spec["faults"]["kinds"], "events_head": r["events"][:40]}
    return s


def replay_scenario(args: dict) -> dict:
    spec, inputs = args["spec"], args["inputs"]
    tape = Tape(replay=args["tape"])
    r, V, herr = _execute(spec, inputs, tape)
    s = _summary(spec, inputs, r, V, herr)
    s["events_log"] = r["events"]
    s["stderr"] = [p["stderr"][-600:] for p in r["procs"]]
    return s


def shrink_candidates(spec: dict, inputs: list[dict]):
    """Spec-level reductions tried by the minimiser (each yields (spec, inputs))."""
    import copy

    n = len(spec["procs"])
    for i in range(n - 1, -1, -1):
        if n <= 1:
            break
        s2 = copy.deepcopy(spec)
        del s2["procs"][i]
        yield s2, inputs
    if spec.get("decoys"):
        s2 = copy.deepcopy(spec)
        s2["decoys"] = {k: v for k, v in spec["decoys"].items() if k.startswith("in/")}
        yield s2, inputs
    for key, val in (("collide", False), ("clock_jumps", False), ("listing", "sorted"), ("policy", "seq"), ("points", False)):
        if spec.get(key) != val:
            s2 = copy.deepcopy(spec)
            s2[key] = val
            yield s2, inputs
    if spec.get("persist"):
        s2 = copy.deepcopy(spec)
        del s2["persist"]
        yield s2, inputs
    for k in list(spec["faults"]["kinds"]):
        s2 = copy.deepcopy(spec)
        s2["faults"]["kinds"] = [x for x in spec["faults"]["kinds"] if x != k]
        yield s2, inputs


# ----------------------------------------------------------------------------- front end

EXPECTED_PROBES = ["success", "except-FileNotFoundError", "except-ReportGenerationError", "except-Exception", "click-abort", "main-fatal", "injected-EEXIST", "tmp-fallback-to-alt", "tmp-fallback-to-cwd", "killed"]
CONFIGS = [
    {"hashseed": 0, "block": []},
    {"hashseed": 1, "block": []},
    {"hashseed": 2, "block": ["scoreboard_cy", "time_utils_cy", "working_hours_cy"]},
    {"hashseed": 3, "block": []},
]
COUNTS = {"quick": {"count": 880, "wall": 100}, "thorough": {"count": 12000, "wall": 1500}}
RULE = (
    "scenario = seeded world (1-12 simulated `plan report` processes, inputs incl. failing ones, decoys, policy, "
    "enabled fault kinds) + tape; non-trivial = at least one context switch while two processes both hold temp state, "
    "or at least one injected fault fired; distinct = distinct (hash of the (proc, op, path-class) sequence, fault signature) pairs"
)
ASSUMPTIONS = [
    "processes interact only through the file system, so interleaving at file-system-operation granularity is the complete interaction surface",
    "a simulated process is a fork of an idle interpreter that has scriptplan imported, not an exec (calibrated against real subprocesses in selftest)",
    "signals are delivered at seam events: before a file-system call, and - in scenarios with the `points` knob - where CPython acts on a pending signal inside plan.py (after a call into C returns, on function entry) and right after a creating / removing system call returns; not inside the engine or the standard library's pure-Python code",
    "SIGKILL of the process under test carries no cleanup obligation; killed peers are a disturbance for the others only",
    "sampling, not enumeration: a clean batch is evidence, not proof",
]


def main() -> int:
    from simplan import driver
    import checks.c20 as me

    return driver.drive(me, CONFIGS, COUNTS, RULE, ASSUMPTIONS)
