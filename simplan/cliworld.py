"""Scenario building blocks shared by the C19 and C20 checks (process world)."""

from __future__ import annotations

import hashlib
import json
import os
import random

from . import gen, procworld
from .tape import Tape

_FIX = None


def _fixtures():
    global _FIX
    if _FIX is None:
        _FIX = gen.fixtures(max_bytes=2500)
    return _FIX


def make_input(rng: random.Random, name: str, p_bad: float = 0.3) -> dict:
    """One input of the pool.  kind says what the CLI contract expects for it."""
    r = rng.random()
    if r >= p_bad:
        q = rng.random()
        if q < 0.08 and _fixtures():
            d = dict(_fixtures()[rng.randrange(len(_fixtures()))])
            d.update(name=name, kind="ok")
            return d
        if q < 0.13:
            d = gen.gen_clock_macro_project(rng)
        else:
            d = gen.gen_project(rng, reports="mixed")
        d.update(name=name, kind="ok")
        return d
    k = rng.randrange(9)
    if k == 0:
        return {"name": name, "kind": "missing", "text": None, "tags": []}
    if k == 1:
        return {"name": name, "kind": "dir", "text": None, "tags": []}
    if k == 2:
        return {"name": name, "kind": "empty", "text": "" if rng.random() < 0.6 else " \n\t\n", "tags": ["ws-only"]}
    if k == 3:
        d = gen.gen_project(rng, reports="mixed")
        d["text"] += rng.choice(["\n}}}\n", "\ntask {", "\nproject again", "\n\x00\n", "\ntask t9 'x' { effort }\n"])
        d.update(name=name, kind="syntax")
        return d
    if k == 4:
        d = gen.gen_project(rng, reports="mixed")
        d["text"], edits = gen.corrupt(rng, d["text"])
        d.update(name=name, kind="corrupt", edits=edits)
        return d
    if k in (5, 6):
        d = gen.gen_infeasible(rng)
        d.update(name=name)
        return d
    if k == 7:
        d = gen.gen_project(rng, reports="none")
        ch = rng.choice(list('<>:|?*'))
        d["text"] += f'\ntaskreport bad "bad{ch}name" {{\n  formats json\n  columns id\n}}\n'
        d.update(name=name, kind="engine-error")
        return d
    d = gen.gen_project(rng, reports="none")
    d["text"] += '\ntaskreport esc "../escaped_%d" {\n  formats %s\n  columns id, start\n}\n' % (rng.randrange(3), rng.choice(["json", "csv"]))
    d.update(name=name, kind="escape")
    d["tags"] = list(d.get("tags", [])) + ["escape"]
    return d


def byte_variants(brng: random.Random, inp: dict) -> None:
    """Byte-level shapes of an input text (own random stream; applied before the file is placed): UTF-8 BOM, a byte
    that is not valid UTF-8 (carried as a lone surrogate and written with surrogateescape - what a C-locale stdin
    hands to the program), a NUL byte, lone-CR line ends."""
    if not inp.get("text") or inp["kind"] in ("missing", "dir", "empty"):
        return
    x = brng.random()
    t = inp["text"]
    if x < 0.03:
        inp["text"] = "\ufeff" + t
        tag = "bom"
    elif x < 0.07:
        k = brng.randrange(len(t) + 1)
        inp["text"] = t[:k] + brng.choice(["\udcff", "\udc80", "\udce9"]) + t[k:]
        inp["kind"] = "nonutf8"
        tag = "nonutf8"
    elif x < 0.085:
        k = brng.randrange(len(t) + 1)
        inp["text"] = t[:k] + "\x00" + t[k:]
        tag = "nul"
    elif x < 0.10:
        inp["text"] = t.replace("\n", "\r")
        tag = "lone-cr"
    else:
        return
    inp["tags"] = list(inp.get("tags", [])) + [tag]


def place_inputs(rng: random.Random, inputs: list[dict], spec: dict) -> None:
    """Put input files into the world (in/ or cwd/) and record how a process refers to them."""
    for inp in inputs:
        where = "cwd" if rng.random() < 0.35 else "in"
        fn = inp["name"] + (".tjp" if rng.random() < 0.9 else ".txt")
        rel = f"{where}/{fn}"
        inp["rel"] = rel
        inp["arg_rel"] = fn if where == "cwd" else "../in/" + fn
        if inp["kind"] == "missing":
            continue
        if inp["kind"] == "dir":
            spec["decoys"][rel + "/"] = None
            continue
        spec["files"][rel] = inp["text"]


def make_proc(rng: random.Random, inp: dict, idx: int, allow_stdin: bool = True) -> dict:
    argv = ["plan"]
    r = rng.random()
    if r < 0.2:
        argv.append("--quiet")
    elif r < 0.35:
        argv.append("--verbose")
    argv.append("report")
    fmt = "json"
    if rng.random() < 0.3:
        argv.append("--csv")
        fmt = "csv"
    ps = {"input": inp["name"], "fmt": fmt, "stdin_text": None, "channel": "file"}
    has_text = inp.get("text") is not None and inp["kind"] not in ("missing", "dir")
    if allow_stdin and has_text and rng.random() < 0.25:
        ps["stdin_text"] = inp["text"]
        if rng.random() < 0.5:
            argv.append("-")
            ps["channel"] = "stdin-dash"
        else:
            ps["channel"] = "stdin-omitted"
    else:
        if rng.random() < 0.2:
            argv.append("{ABS}/" + inp["rel"])  # expanded by the world builder to an absolute path
            ps["channel"] = "file-abs"
        else:
            argv.append(inp["arg_rel"])
    ps["argv"] = argv
    return ps


def expand_abs(spec: dict, root: str) -> None:
    for ps in spec["procs"]:
        ps["argv"] = [a.replace("{ABS}", root) for a in ps["argv"]]


DECOY_NAMES = [
    "cwd/plan_auto_deadbeefdeadbeef.json",
    "cwd/out.json",
    "cwd/aaa.json",
    "cwd/notes.txt",
    "cwd/plan_output_keep/",
    "cwd/plan_output_keep/x.json",
    "tmp/plan_auto_foreign.tjp",
    "tmp/plan_stdin_foreign.tjp",
    "tmp/plan_output_foreign/",
    "tmp/plan_output_foreign/aaa.json",
    "tmp/plan_output_foreign/zzz.csv",
    "tmp/zz.csv",
    "tmp/other_app.lock",
    "alt-tmp/plan_auto_old.tjp",
    "tmp/escaped_0.json",
]


def add_decoys(rng: random.Random, spec: dict, p: float = 0.5, stems: list[str] | None = None) -> None:
    # earlier outputs a user keeps next to the input (plan report p0.tjp > p0.json) - named after the input
    for st in stems or []:
        if rng.random() < 0.3:
            for name in (f"cwd/{st}.json", f"cwd/{st}.csv", f"cwd/old_{st}_2023.json", f"tmp/{st}.json")[: rng.randrange(1, 5)]:
                spec["decoys"][name] = '{"kept": "%s"}\n' % name
    if rng.random() >= p:
        return
    for _ in range(rng.randrange(1, 6)):
        d = DECOY_NAMES[rng.randrange(len(DECOY_NAMES))]
        if d.endswith("/"):
            spec["decoys"][d] = None
        else:
            parent = os.path.dirname(d)
            if parent.count("/") >= 1:
                spec["decoys"][parent + "/"] = None
            spec["decoys"][d] = '{"decoy": %d}\n' % rng.randrange(1000)


# ----------------------------------------------------------------------------- baselines

_BASE: dict[str, tuple] = {}


def baseline(inp: dict, ps: dict, t0: float | None = None) -> tuple:
    """(exit, stdout) of the solitary fault-free run of the same input and argv, sorted listing."""
    key = hashlib.sha256(json.dumps([inp.get("kind"), inp.get("text"), sorted(a for a in ps["argv"] if a.startswith("--")), ps["channel"].split("-")[0], ps["channel"] == "stdin-dash", ps["fmt"], t0 if "uses-clock-macro" in inp.get("tags", []) else None]).encode()).hexdigest()
    if key in _BASE:
        return _BASE[key]
    spec = {"files": {}, "decoys": {}, "procs": [], "policy": "seq"}
    if t0 is not None:
        spec["t0"] = t0
    i2 = dict(inp)
    i2["rel"] = "in/base_input.tjp"
    i2["arg_rel"] = "../in/base_input.tjp"
    if inp["kind"] == "dir":
        spec["decoys"]["in/base_input.tjp/"] = None
    elif inp["kind"] != "missing":
        spec["files"]["in/base_input.tjp"] = inp["text"]
    argv = [a for a in ps["argv"]]
    if ps["channel"] in ("file", "file-abs"):
        argv[-1] = "../in/base_input.tjp"
    spec["procs"] = [{"argv": argv, "stdin_text": ps.get("stdin_text")}]
    r = procworld.run_world(spec, Tape(replay=[]))
    p = r["procs"][0]
    val = (p["exit"], p["stdout"], bool(r["initial"] == r["final"]))
    _BASE[key] = val
    return val
