#!/bin/bash
# usage: tools/regress_seeded.sh [seed] [id-glob]
# Run every seeded change (scratch copy of /repo HEAD + patch) against the check of its property; one line per seed.
cd "$(dirname "$0")/.." || exit 2
for d in seeded/*/; do
  id=$(basename $d); case "$id" in ${2:-*}) ;; *) continue;; esac; prop=$(/venv/bin/python -c "import json;print(json.load(open('$d/meta.json'))['property'])")
  out=$(tools/run_seeded_scratch.sh $id $prop ${1:-0} 2>&1)
  n=$(echo "$out" | grep -c "^VIOLATION")
  sigs=$(echo "$out" | grep -o "sig=[^ ]*" | sort -u | head -4 | tr '\n' ' ')
  echo "$id $prop violations=$n $( [ $n -gt 0 ] && echo CAUGHT || echo MISSED ) $sigs"
done
