#!/bin/bash
# Re-validate every seeded change against /repo's current HEAD: the patch applies, the test suite passes with it,
# the agent's demo fails with it and passes without it.  Demos hard-code /tmp/wt-<id>, so a worktree is created there.
cd "$(dirname "$0")/.." || exit 2
ids="${1:-$(ls seeded)}"
for id in $ids; do
  wt=/tmp/wt-$id
  git -C /repo worktree remove --force $wt >/dev/null 2>&1
  git -C /repo worktree add -q --detach $wt HEAD || { echo "$id: cannot create worktree"; continue; }
  mkdir -p $wt/_seeded; cp seeded/$id/demo.py seeded/$id/patch.diff $wt/_seeded/
  if ! git -C $wt apply --check _seeded/patch.diff 2>/dev/null; then echo "$id: PATCH DOES NOT APPLY to HEAD"; git -C /repo worktree remove --force $wt; continue; fi
  pyx=$(grep -c "\.pyx" seeded/$id/patch.diff)
  build() { if [ "$pyx" -gt 0 ] || [ "${id:0:3}" = "c13" ]; then (cd $wt && /venv/bin/python setup.py -q build_ext --inplace >/dev/null 2>&1; rm -rf build); fi; }
  git -C $wt apply _seeded/patch.diff; build
  t=$(cd $wt && timeout 900 /venv/bin/python -m pytest -q -p no:cacheprovider -x 2>&1 | tail -1)
  (cd $wt && timeout 900 /venv/bin/python _seeded/demo.py >/tmp/reval_$id.with 2>&1); w=$?
  git -C $wt apply -R _seeded/patch.diff; build
  (cd $wt && timeout 900 /venv/bin/python _seeded/demo.py >/tmp/reval_$id.without 2>&1); wo=$?
  echo "$id: tests[$t] demo with=$w without=$wo $( [ $w -eq 1 ] && [ $wo -eq 0 ] && echo VALID || echo CHECK )"
  git -C /repo worktree remove --force $wt
done
git -C /repo worktree prune
