"""Interpreter world: library calls executed in a forked child under a deterministic step clock.

The step clock counts function entries and loop back-edges (sys.monitoring, PEP 669).
It is the budget for bounded liveness (C11) and the instant at which a cancellation is
injected (C12): raising from the callback propagates into the running engine code.
"""

from __future__ import annotations

import contextlib
import io
import json
import os
import select
import signal
import sys
import traceback

TOOL_ID = 3  # sys.monitoring tool slot


class StepBudgetExceeded(BaseException):
    pass


class InjectedCancel(BaseException):
    """Base for cancellations raised at a chosen step (subclasses mimic the real exception)."""


class StepClock:
    def __init__(self):
        self.steps = 0
        self.budget = None
        self.cancel_at = None
        self.cancel_exc = None
        self.fired = False
        self.active = False

    def install(self):
        mon = sys.monitoring
        mon.use_tool_id(TOOL_ID, "simplan-stepclock")
        ev = mon.events
        clock = self

        def tick(*_a):
            clock.steps += 1
            if clock.cancel_at is not None and clock.steps >= clock.cancel_at and not clock.fired:
                clock.fired = True
                exc = clock.cancel_exc
                clock.cancel_at = None
                raise exc
            if clock.budget is not None and clock.steps > clock.budget:
                clock.budget = None
                raise StepBudgetExceeded(f"step budget exceeded at {clock.steps}")

        mon.register_callback(TOOL_ID, ev.PY_START, tick)
        mon.register_callback(TOOL_ID, ev.JUMP, tick)
        mon.set_events(TOOL_ID, ev.PY_START | ev.JUMP)
        self.active = True

    def uninstall(self):
        if self.active:
            sys.monitoring.set_events(TOOL_ID, 0)
            sys.monitoring.free_tool_id(TOOL_ID)
            self.active = False

    def pause(self):
        if self.active:
            sys.monitoring.set_events(TOOL_ID, 0)

    def resume(self):
        if self.active:
            ev = sys.monitoring.events
            sys.monitoring.set_events(TOOL_ID, ev.PY_START | ev.JUMP)


def innermost_scriptplan_frame(exc: BaseException) -> str:
    tb = traceback.extract_tb(exc.__traceback__)
    fr = [f for f in tb if "/scriptplan/" in f.filename and not f.filename.endswith(("message_handler.py", "scenario_data.py"))]
    if not fr:
        fr = [f for f in tb if "simplan" not in f.filename]
    if not fr:
        return "?"
    return ">".join(f"{os.path.basename(f.filename)}:{f.name}" for f in fr[-2:])


def fork_call(fn, args: tuple, timeout: float) -> dict:
    """Run fn(*args) in a forked child; fn returns a JSON-able dict.  Hard kill on wall timeout."""
    r, w = os.pipe()
    sys.stdout.flush()
    sys.stderr.flush()
    pid = os.fork()
    if pid == 0:
        os.close(r)
        try:
            try:
                out = fn(*args)
            except BaseException as e:  # harness bug inside the child
                out = {"harness": f"{type(e).__name__}: {e}", "tb": traceback.format_exc()[-1500:]}
            data = json.dumps(out, default=str).encode()
            off = 0
            while off < len(data):
                off += os.write(w, data[off : off + 65536])
        finally:
            os._exit(0)
    os.close(w)
    chunks = []
    res = None
    import time

    deadline = time.time() + timeout
    while True:
        left = deadline - time.time()
        rd = select.select([r], [], [], max(0.0, left))[0] if left > 0 else []
        if not rd:
            try:
                os.kill(pid, signal.SIGKILL)
            except ProcessLookupError:
                pass
            res = {"wall_timeout": True}
            break
        chunk = os.read(r, 1 << 16)
        if not chunk:
            break
        chunks.append(chunk)
    os.close(r)
    try:
        os.waitpid(pid, 0)
    except ChildProcessError:
        pass
    if res is None:
        try:
            res = json.loads(b"".join(chunks))
        except ValueError:
            res = {"harness": "child died without an answer (crash in C code?)"}
    return res


# ----------------------------------------------------------------------------- C11 case


def _measure(project) -> dict:
    try:
        tasks = list(project.tasks)
        res = list(project.resources)
        st, en = project.attributes.get("start"), project.attributes.get("end")
        gran = project.attributes.get("scheduleGranularity") or 3600
        H = int((en - st).total_seconds() / gran) + 1 if st and en else 0
        return {"T": len(tasks), "R": len(res), "H": H, "gran": gran, "S": len(list(project.scenarios))}
    except Exception as e:
        return {"T": 0, "R": 0, "H": 0, "err": str(e)}


def c11_case(text: str, budget_parse: int | None, budget_fn: dict | None) -> dict:
    """parse(text, schedule=False) then project.schedule(), each under the step clock."""
    from scriptplan.parser.tjp_parser import ProjectFileParser
    from scriptplan.utils.message_handler import MessageHandlerInstance

    out: dict = {"len": len(text)}
    clock = StepClock()
    err = io.StringIO()
    mh = MessageHandlerInstance()
    parser = ProjectFileParser()  # Lark grammar compilation is not what the property bounds
    clock.install()
    project = None
    try:
        with contextlib.redirect_stderr(err), contextlib.redirect_stdout(io.StringIO()):
            clock.budget = budget_parse
            try:
                project = parser.parse(text, schedule=False)
                out["parse"] = "accepted"
            except StepBudgetExceeded:
                out["parse"] = "budget"
            except Exception as e:
                out["parse"] = "rejected"
                out["parse_exc"] = type(e).__name__
                out["parse_frame"] = innermost_scriptplan_frame(e)
            except BaseException as e:
                out["parse"] = "escaped"
                out["parse_exc"] = type(e).__name__
                out["parse_frame"] = innermost_scriptplan_frame(e)
            out["steps_parse"] = clock.steps
            if project is not None:
                clock.pause()
                m = _measure(project)
                out["m_before"] = m
                pinned = _pinned(project)
                M = out["len"] + _horizon_after_extension(project, m) * (m["R"] + m["T"] + 1) * m.get("S", 1) + m["T"] ** 2
                out["M"] = M
                clock.budget = int(min(budget_fn["c0"] + budget_fn["c1"] * M, budget_fn.get("cap", 1e18))) if budget_fn is not None else None
                out["budget"] = clock.budget
                clock.steps = 0
                clock.resume()
                try:
                    project.schedule()
                    out["sched"] = "returned"
                except StepBudgetExceeded:
                    out["sched"] = "budget"
                except Exception as e:
                    out["sched"] = "raised"
                    out["sched_exc"] = type(e).__name__
                    out["sched_frame"] = innermost_scriptplan_frame(e)
                    out["sched_msg"] = str(e)[:160]
                except BaseException as e:
                    out["sched"] = "escaped"
                    out["sched_exc"] = type(e).__name__
                    out["sched_frame"] = innermost_scriptplan_frame(e)
                out["steps_sched"] = clock.steps
    finally:
        clock.uninstall()
    if project is not None and out.get("sched") == "returned":
        m2 = _measure(project)
        out["m_after"] = m2
        out["disposition"] = _disposition(project, pinned)
    try:
        msgs = mh.messages
        out["warnings"] = sum(1 for x in msgs if str(x.type.value) == "warning")
        out["errors"] = sum(1 for x in msgs if str(x.type.value) in ("error", "fatal"))
    except Exception:
        out["warnings"] = -1
    out["stderr_tail"] = err.getvalue()[-300:]
    return out


def _horizon_after_extension(project, m) -> int:
    """Slots of the horizon the scheduler will work on (schedule() may extend the project end first)."""
    try:
        import copy

        st, en = project.attributes.get("start"), project.attributes.get("end")
        if not st or not en:
            return m["H"]
        saved = project.attributes["end"]
        project._extendProjectEndIfNeeded()
        en2 = project.attributes["end"]
        project.attributes["end"] = saved
        gran = m.get("gran") or 3600
        return int((en2 - st).total_seconds() / gran) + 1
    except Exception:
        return m["H"]


def _pinned(project) -> dict:
    """User-provided start/end of leaf tasks per scenario, taken before schedule() touches anything."""
    out = {}
    try:
        for sc in project.scenarios:
            scIdx = sc.sequenceNo - 1
            for t in project.tasks:
                if t.leaf():
                    out[(t.fullId, scIdx)] = (t.get("start", scIdx), t.get("end", scIdx))
    except Exception:
        pass
    return out


def _disposition(project, pinned=None) -> dict:
    pinned = pinned or {}
    bad = []
    n_leaf = n_sched = n_unsched = 0
    st, en = project.attributes.get("start"), project.attributes.get("end")
    nsc = 0
    for sc in project.scenarios:
        if not sc.get("active") and sc.get("active") is not None:
            continue
        scIdx = sc.sequenceNo - 1
        nsc += 1
        for t in project.tasks:
            if not t.leaf():
                continue
            n_leaf += 1
            s, e = t.get("start", scIdx), t.get("end", scIdx)
            if t.get("scheduled", scIdx):
                n_sched += 1
                ps, pe = pinned.get((t.fullId, scIdx), (None, None))
                if s is None or e is None:
                    bad.append([t.fullId, scIdx, "scheduled-without-dates", str(s), str(e)])
                elif s > e:
                    how = "|pinned-start-and-end" if (ps == s and pe == e) else ""
                    bad.append([t.fullId, scIdx, "start>end" + how, str(s), str(e)])
                elif st and en and (s < st or e > en):
                    off = [x for x in (s, e) if x < st or x > en]
                    how = "|pinned-date" if all(x in (ps, pe) for x in off) else ""
                    bad.append([t.fullId, scIdx, "outside-horizon" + how, str(s), str(e)])
            else:
                n_unsched += 1
    return {"leaves": n_leaf, "scheduled": n_sched, "unscheduled": n_unsched, "bad": bad[:5], "scenarios": nsc}
