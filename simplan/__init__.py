"""simplan - deterministic simulation with fault injection for scriptplan.

Everything in here runs the real code of /repo (a scratch snapshot of its current
working tree) under seams the simulator owns.  See /verif/DESIGN.md.
"""

GUARD = "SCRIPTPLAN_VERIF"
