import json, sys
NA = {
 "C01": "bookings are a pure function of the project text: tasks are scheduled to completion one after another in an input-determined order, so there is no interleaving, clock, I/O or fault for a simulator to vary, and driving book/release in other orders would reach states the scheduler cannot",
 "C02": "the calendar test is a pure function of (text, tz database); no schedule, clock or fault enters it",
 "C03": "effort accounting is a pure function of the project text; only input generation plus an oracle could decide it, which is a different technique",
 "C04": "precedence is a pure function of the project text; no schedule or fault dimension",
 "C05": "limit counters are a pure function of the project text; no schedule or fault dimension (DESIGN.md section 9, observation H, records a hand-found failure outside this technique)",
 "C06": "reported bounds vs. booked work is a pure function of the project text",
 "C07": "comparison with a reference list scheduler has a model but nothing nondeterministic to refine against; it is differential testing over inputs",
 "C08": "earliest/latest fit is a pure function of the project text",
 "C09": "a relation between two evaluations of the pure scheduling function on related inputs",
 "C10": "container roll-up is a pure function of the project text",
 "C14": "a relation between two evaluations of the pure function; it concerns project dates, not the clock (the clock seam is covered by C12/C19)",
 "C15": "a relation between two evaluations of the pure function on rewritten texts",
 "C16": "per-scenario independence is state carry-over inside one deterministic call; a pure function of the text",
 "C17": "index/time algebra and interval scanning are pure functions of their arguments; exhaustive enumeration, not simulation, is the tool (native/pure agreement on the same calls is covered by C13)",
 "C18": "cell contents and JSON/CSV agreement are pure functions of the scheduled model; its one history clause (generating reports never alters the schedule) is exercised as report/observe operations inside C12",
}
claimed = json.load(open('/verif/manifest_checks.json'))
m = {
 "version": 1,
 "setup_cmd": "/venv/bin/python -m simplan.selfcheck",
 "hooks": {"guard": "SCRIPTPLAN_VERIF", "enable": "no hooks in /repo: every seam is a monkeypatch installed from /verif inside simulated processes; checks snapshot /repo's working tree to a scratch directory and build the extensions there", "baseline_off_cmd": "cd /repo && /venv/bin/python -m pytest -ra -q -p no:cacheprovider --timeout=900 --continue-on-collection-errors", "source_commits": [], "add_only": True},
 "engines": [{"name": "simplan", "path": "/verif/simplan", "serves_properties": [c["property_id"] for c in claimed], "kind_free_text": "deterministic simulator written for this task: seeded tape scheduler, fork-per-process world over a private tmpfs tree with file-system/clock/name/stdio seams and fault injection, interpreter world with sys.monitoring step clock; replay files and tape minimiser"}],
 "checks": claimed,
 "not_applicable": [{"property_id": k, "reason": v} for k, v in sorted(NA.items())] + [{"property_id": c, "reason": r} for c, r in json.load(open('/verif/manifest_pending.json')).items()],
 "notes": "Technique family: deterministic simulation with fault injection only. Properties that are pure functions of the project text are not applicable (DESIGN.md sections 2 and 6). ./check <ID> --replay <file> re-executes a violation.",
}
json.dump(m, open('/verif/MANIFEST.json','w'), indent=1)
import jsonschema
jsonschema.validate(m, json.load(open('/root/.vp/MANIFEST.schema.json')))
print("manifest ok", [c["property_id"] for c in claimed])
