"""C12 - same input, same output, independent of history and process state.

One interpreter (a forked child) per seeded history of parse / schedule / re-schedule /
report / in-process CLI calls over a pool of 2-5 project texts, with cancellations
(KeyboardInterrupt, MemoryError, OSError raised at a chosen step inside engine code),
report-write faults, clock jumps, TZ changes and gc in between.  Every observation is
compared with a baseline taken in a fresh interpreter under PYTHONHASHSEED=0.
Oracles: [digest] [exception-class]  (DESIGN.md 5.3)
"""

from __future__ import annotations

import json
import os
import time

from simplan import gen, harness, libworld, snapshot
from simplan.pool import Pool
from simplan.tape import digest, rng_for

PROP = "C12"


def gen_pool(seed: int, idx: int) -> dict:
    rng = rng_for(PROP, seed, idx)
    k = rng.randrange(2, 6)
    texts, kinds, clocky = [], [], []
    for j in range(k):
        r = rng.random()
        if j > 0 and rng.random() < 0.45:
            # a sibling of an earlier text: same header, small semantic edits
            src = rng.randrange(len(texts))
            texts.append(gen.variant(rng, texts[src], "calendar" if rng.random() < 0.4 else None))
            kinds.append("variant-of-%d" % src)
            clocky.append(clocky[src])
            continue
        if r < 0.55:
            d = gen.gen_project(rng, reports="always" if rng.random() < 0.6 else "mixed")
            kind = "gen"
        elif r < 0.65:
            d = gen.gen_clock_macro_project(rng)
            kind = "clock"
        elif r < 0.78:
            d = gen.gen_infeasible(rng)
            kind = "infeasible"
        elif r < 0.9:
            d = gen.gen_project(rng, reports="mixed")
            d["text"], _e = gen.corrupt(rng, d["text"])
            kind = "corrupt"
        elif r < 0.95:
            d = gen.gen_project(rng, reports="none")
            d["text"] += '\ntaskreport bad "bad*name" {\n  formats json\n  columns id\n}\n'
            kind = "engine-error"
        else:
            fx = gen.fixtures(max_bytes=2500)
            d = dict(fx[rng.randrange(len(fx))]) if fx else gen.gen_project(rng)
            kind = "fixture"
        texts.append(d["text"])
        kinds.append(kind)
        clocky.append("${today}" in d["text"] or "${now}" in d["text"] or "no-now" in d.get("tags", []))
    n_ops = rng.choice([20, 40, 60, 100])
    # container attributes inherited by children (own stream): the inheritance machinery is process-global state
    irng = rng_for(PROP, seed, f"inherit-{idx}")
    for j, kd in enumerate(kinds):
        if kd in ("gen", "clock") and irng.random() < 0.4:
            texts[j] = gen.add_inheritance(irng, texts[j])
            kinds[j] = kd + "+inherit"
    return {"texts": texts, "kinds": kinds, "clocky": clocky, "n_ops": n_ops, "fault_free": rng.random() < 0.3, "rng_seed": f"{PROP}:{seed}:{idx}:ops"}


def baseline_job(args: dict) -> dict:
    pool = gen_pool(args["seed"], args["idx"])
    out = []
    for ti, text in enumerate(pool["texts"]):
        wd = snapshot.new_scratch("c12b")
        try:
            ts = libworld.CLOCKS if pool["clocky"][ti] else libworld.CLOCKS[:1]
            r = libworld.fork_call(libworld.c12_baseline, (text, ts, wd), 600)
        finally:
            snapshot.drop_scratch(wd)
        out.append(r)
    return {"idx": args["idx"], "baselines": out}


def history_job(args: dict) -> dict:
    pool = gen_pool(args["seed"], args["idx"])
    wd = snapshot.new_scratch("c12h")
    spec = dict(pool)
    spec.update(baselines=args["baselines"], workdir=wd, tape=args.get("tape"))
    if args.get("n_ops"):
        spec["n_ops"] = args["n_ops"]
    try:
        r = libworld.fork_call(libworld.c12_history, (spec,), 420)
    finally:
        snapshot.drop_scratch(wd)
    if r.get("wall_timeout"):
        return {"idx": args["idx"], "viol": [{"oracle": "progress", "sig": "progress|history-wall-timeout", "detail": "history did not finish within the wall watchdog"}], "log": [], "tape": [], "stats": {}, "kinds": pool["kinds"]}
    if "harness" in r:
        return {"idx": args["idx"], "harness": r["harness"] + r.get("tb", "")}
    r["idx"] = args["idx"]
    r["kinds"] = pool["kinds"]
    r["log_digest"] = digest(r["log"])
    if r["viol"] or args.get("sample"):
        r["texts"] = pool["texts"]
    else:
        r.pop("log", None)
    return r


def _baseline_selfcheck(bl: dict) -> list[dict]:
    V = []
    for ts, b in bl.get("by_clock", {}).items():
        if "dates" in b and "dates_after_reschedule" in b and b["dates"] != b["dates_after_reschedule"]:
            bad = next(((x, y) for x, y in zip(b["dates"], b["dates_after_reschedule"]) if x != y), None)
            V.append({"oracle": "digest", "sig": "digest|schedule-again-changes-dates", "detail": f"fresh interpreter: calling schedule() again changed {bad}"})
        if "dates_after_reports" in b and b.get("dates_after_reschedule") != b["dates_after_reports"]:
            V.append({"oracle": "digest", "sig": "digest|reports-change-dates", "detail": "fresh interpreter: generating the reports changed task dates"})
    return V


CONFIGS = [
    {"hashseed": 0, "block": []},
    {"hashseed": 1, "block": []},
    {"hashseed": 4242, "block": ["scoreboard_cy", "time_utils_cy", "working_hours_cy"]},
    {"hashseed": 7, "block": ["working_hours_cy"]},
    {"hashseed": 2, "block": []},
    {"hashseed": 31337, "block": []},
    {"hashseed": 99, "block": ["time_utils_cy", "scoreboard_cy"]},
]
COUNTS = {"quick": {"count": 96, "wall": 100}, "thorough": {"count": 6000, "wall": 1600}}
ASSUMPTIONS = [
    "baselines are taken in a forked child of a worker interpreter that has imported scriptplan but executed none of it, PYTHONHASHSEED=0, all extensions native, TZ=UTC, fixed clock",
    "a handle into which an injected cancellation fired is poisoned and not observed again (and the parser object is replaced); nothing else is excused",
    "texts containing ${today}/${now} or lacking a 'now' attribute are functions of (text, date): compared with the baseline of the same simulated date",
    "cancellations are injected at step-clock points (function entries, loop back-edges), not between arbitrary bytecodes",
    "sampling of histories, not enumeration",
]


def main() -> int:
    import argparse

    ap = argparse.ArgumentParser()
    ap.add_argument("--tier", default=os.environ.get("VERIF_TIER", "quick"))
    ap.add_argument("--replay")
    ap.add_argument("--count", type=int)
    ap.add_argument("--workers", type=int, default=min(16, os.cpu_count() or 4))
    a = ap.parse_args()
    tier = a.tier if a.tier in ("quick", "thorough") else "quick"
    seed = harness.env_seed()
    t0 = time.time()
    try:
        snap = snapshot.make_snapshot(build=True)
    except snapshot.SnapshotError as e:
        print(f"HARNESS-ERROR property={PROP} snapshot/build failed: {e}")
        return 2
    pool = Pool(snap["path"], CONFIGS, total_workers=a.workers)
    me = "checks.c12"
    if a.replay:
        with open(a.replay, encoding="utf-8") as f:
            rp = json.load(f)
        b = pool.run([{"cfg": 0, "mod": me, "fn": "baseline_job", "args": {"seed": rp["seed"], "idx": rp["history_index"]}}])[0]
        res = pool.run([{"cfg": rp["cfg"], "mod": me, "fn": "history_job", "args": {"seed": rp["seed"], "idx": rp["history_index"], "baselines": b["res"]["baselines"], "tape": rp["tape"], "n_ops": rp["n_ops"], "sample": True}}])[0]
        if not res or not res.get("ok") or res["res"].get("harness"):
            print(f"HARNESS-ERROR property={PROP} replay failed: {res}")
            return 2
        sigs = [v["sig"] for v in res["res"]["viol"]]
        print(f"replay: sigs={sigs} expected={rp['sig']} same_log={res['res']['log_digest'] == rp.get('log_digest')}")
        for e in res["res"].get("log", [])[-40:]:
            print("  ", e)
        if rp["sig"] in sigs:
            print(f"VIOLATION property={PROP} replay={a.replay}")
            return 1
        print(f"OK property={PROP} (replay no longer violates)")
        return 0
    count = a.count or COUNTS[tier]["count"]
    wall = harness.env_budget(COUNTS[tier]["wall"])
    herr: list[str] = []
    # phase 1: baselines in hashseed-0 interpreters
    bjobs = [{"cfg": 0, "mod": me, "fn": "baseline_job", "args": {"seed": seed, "idx": i}} for i in range(count)]
    bres = pool.run(bjobs, wall_cap=wall * 0.45)
    hjobs, hidx = [], []
    base_viol = []
    for i, r in enumerate(bres):
        if r is None:
            continue
        if not r.get("ok"):
            herr.append(r.get("harness") or r.get("error", "") + r.get("tb", "")[-500:])
            continue
        bl = r["res"]["baselines"]
        if any("harness" in b or "wall_timeout" in b for b in bl):
            if any("harness" in b for b in bl):
                herr.append(f"baseline {i}: {[b.get('harness') for b in bl if 'harness' in b][:1]}")
            continue
        for b in bl:
            for v in _baseline_selfcheck(b):
                base_viol.append((i, v))
        hidx.append(i)
        hjobs.append({"cfg": i % len(CONFIGS), "mod": me, "fn": "history_job", "args": {"seed": seed, "idx": i, "baselines": bl, "sample": i < 2}})
    ndet = min(6, len(hjobs))
    det = [dict(j) for j in hjobs[:ndet]]
    hres = pool.run(hjobs + det, wall_cap=max(30.0, wall - (time.time() - t0)))
    done = []
    for j, r in enumerate(hres[: len(hjobs)]):
        if r is None:
            continue
        if not r.get("ok"):
            herr.append(r.get("harness") or r.get("error", "") + r.get("tb", "")[-500:])
        elif r["res"].get("harness"):
            herr.append(f"history {hidx[j]}: {r['res']['harness'][:600]}")
        else:
            done.append(r["res"])
    det_checked = 0
    for j, r in enumerate(hres[len(hjobs) :]):
        m = hres[j]
        if r and r.get("ok") and m and m.get("ok") and "log_digest" in r["res"] and "log_digest" in m["res"]:
            det_checked += 1
            if r["res"]["log_digest"] != m["res"]["log_digest"]:
                herr.append(f"nondeterminism: history {hidx[j]} produced two different op logs")
    all_v = [(s, v) for s in done for v in s["viol"]]
    all_v += [({"idx": i, "baseline_only": True}, v) for i, v in base_viol]
    new, old, known_lines = harness.split_known(PROP, [v for _, v in all_v])
    first: dict[str, tuple] = {}
    for s, v in all_v:
        if v in new and v["sig"] not in first:
            first[v["sig"]] = (s, v)
    reported = []
    for sig, (s, v) in list(first.items())[:4]:
        i = s["idx"]
        cfg = i % len(CONFIGS)
        payload = {"property": PROP, "sig": sig, "oracle": v["oracle"], "detail": v["detail"], "seed": seed, "history_index": i, "cfg": cfg, "worker_config": CONFIGS[cfg], "tree_digest": snap["digest"]}
        if sig == "progress|history-wall-timeout":
            # nothing to shrink and every probe would cost a full watchdog period: the replay regenerates the history
            payload.update(tape=None, n_ops=None, note="the history did not finish within the wall watchdog (420 s; a quick-tier history takes 5-20 s); replay regenerates it from (seed, history_index)", texts=gen_pool(seed, i)["texts"])
            reported.append((v, harness.write_replay(PROP, seed, payload)))
            continue
        if s.get("baseline_only"):
            payload.update(tape=[], n_ops=0, note="violation inside the fresh-interpreter baseline itself (no history needed)", texts=gen_pool(seed, i)["texts"])
            reported.append((v, harness.write_replay(PROP, seed, payload)))
            continue
        # confirm + shrink: shortest prefix of the history that still shows the same signature
        bl = bres[i]["res"]["baselines"]
        n_full = len(s["log"])
        tape = s["tape"]

        def run(n_ops):
            r = pool.run([{"cfg": cfg, "mod": me, "fn": "history_job", "args": {"seed": seed, "idx": i, "baselines": bl, "tape": tape, "n_ops": n_ops, "sample": True}}])[0]
            return r["res"] if r and r.get("ok") and not r["res"].get("harness") else None

        chk = run(n_full)
        if chk is None or sig not in {x["sig"] for x in chk["viol"]}:
            herr.append(f"violation {sig} of history {i} did not reproduce on replay")
            continue
        lo = next(x["op"] for x in chk["viol"] if x["sig"] == sig) + 1
        best = run(lo)
        n_ops = lo
        if best is None or sig not in {x["sig"] for x in best["viol"]}:
            best, n_ops = chk, n_full
        again = run(n_ops)
        v2 = next(x for x in best["viol"] if x["sig"] == sig)
        payload.update(tape=tape, n_ops=n_ops, detail=v2["detail"], log=best["log"], log_digest=best["log_digest"], texts=best.get("texts"), kinds=best.get("kinds"), replays_exactly=bool(again and again["log_digest"] == best["log_digest"]))
        reported.append((v2, harness.write_replay(PROP, seed, payload)))
    # ---- evidence
    agg = {"cancel_armed": 0, "io_faults": 0, "clock_jumps": 0, "tz_changes": 0, "env_changes": 0, "observations": 0, "alternations": 0}
    fired: dict[str, int] = {}
    ops: dict[str, int] = {}
    distinct = set()
    steps = 0
    for s in done:
        st = s.get("stats", {})
        for k in agg:
            agg[k] += st.get(k, 0)
        for k, n in st.get("cancel_fired", {}).items():
            fired[k] = fired.get(k, 0) + n
        for k, n in st.get("ops", {}).items():
            ops[k] = ops.get(k, 0) + n
        steps += s.get("steps", 0)
        if st.get("alternations", 0) >= 2 or st.get("cancel_fired"):
            distinct.add(s.get("log_digest"))
    wall_s = time.time() - t0
    samples = [{"kinds": s["kinds"], "log_head": s.get("log", [])[:30]} for s in done if "log" in s and not s["viol"]][:2]
    cov = {
        "evaluations": len(done),
        "distinct_nontrivial": len(distinct),
        "rule": "history = seeded tape of 20-100 operations (parse, parse without scheduling, schedule, observe, report, in-process CLI, gc, and the fault operations cancel / report-write fault / clock jump / TZ change) over a pool of 2-5 texts in one interpreter; non-trivial = operations on at least two texts alternate, or a cancellation fired inside engine code; distinct = distinct operation logs",
        "samples": samples or [{"note": "none"}],
        "histories_requested": count,
        "baselines_computed": sum(1 for r in bres if r and r.get("ok")),
        "operations_by_kind": dict(sorted(ops.items())),
        "observations_compared_with_baseline": agg["observations"],
        "cancellations_armed": agg["cancel_armed"],
        "cancellations_fired_inside_engine_code": dict(sorted(fired.items())),
        "report_write_faults_armed": agg["io_faults"],
        "clock_jumps": agg["clock_jumps"],
        "tz_changes": agg["tz_changes"],
        "process_state_changes_cwd_locale_logging_random_recursion_decimal": agg["env_changes"],
        "text_alternations": agg["alternations"],
        "steps_executed": steps,
        "runs_per_hour": int(len(done) / max(wall_s, 1e-6) * 3600),
        "determinism_reruns_checked": det_checked,
        "worker_configs": CONFIGS,
        "known_findings_hit": len(old),
        "tree_digest": snap["digest"],
        "harness_errors": len(herr),
    }
    harness.write_evidence(PROP, tier, seed, cov, ASSUMPTIONS, wall_s, len(reported))
    print(f"{PROP} {tier}: {len(done)}/{count} histories, {agg['observations']} observations, {sum(fired.values())} cancellations fired, {wall_s:.0f}s")
    return harness.finish(PROP, reported, known_lines, herr)
