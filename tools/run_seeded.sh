#!/bin/bash
# usage: tools/run_seeded.sh <seeded-id> "<checks>" [seed]   - apply seeded/<id>/patch.diff to /repo, run the checks, undo
cd "$(dirname "$0")/.." || exit 2
id="$1"; checks="$2"; seed="${3:-0}"
git -C /repo diff --quiet || { echo "/repo has local changes; refusing"; exit 2; }
git -C /repo apply "$PWD/seeded/$id/patch.diff" || exit 2
trap 'git -C /repo checkout -- . ; mkdir -p /tmp/seeded-replays/$id; mv replays/* /tmp/seeded-replays/$id/ 2>/dev/null; git checkout -q -- evidence' EXIT
for c in $checks; do
  echo "== $id check $c seed $seed"
  VERIF_SEED=$seed ./check $c 2>&1 | grep -v "^KNOWN-FINDING" | grep "VIOLATION\|HARNESS\|OK prop\|oracle=\|quick:" | cut -c1-400
done
