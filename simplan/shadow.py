"""Shadow refinement monitor for C13: every call the running system makes to a function that
has a native and a pure-Python implementation is executed under both - by flipping the
module's own _USE_CYTHON switch around the call - and the two outcomes must agree.
The pure-Python fallback is the executable reference model.
"""

from __future__ import annotations

import math

MAX_DIV = 40


class Shadow:
    def __init__(self):
        self.calls: dict[str, int] = {}
        self.compared: dict[str, int] = {}
        self.div: list[dict] = []
        self.div_count: dict[str, int] = {}
        self.installed = False
        self._orig = []

    # -------------------------------------------------------------- comparison
    @staticmethod
    def _norm(v):
        if isinstance(v, list):
            return [Shadow._norm(x) for x in v]
        if hasattr(v, "start") and hasattr(v, "end") and not isinstance(v, (int, float, str)):
            return ("iv", Shadow._norm(v.start), Shadow._norm(v.end))
        if isinstance(v, float):
            return ("f", repr(v))
        if isinstance(v, bool):
            return ("b", v)
        if isinstance(v, int):
            return ("i", v)
        if hasattr(v, "isoformat"):
            return ("dt", v.isoformat(), str(getattr(v, "tzinfo", None)))
        return ("o", repr(v))

    def _outcome(self, fn):
        try:
            return ("ret", fn())
        except Exception as e:  # noqa: BLE001 - both sides raising is agreement, whatever the type
            return ("exc", e)

    def _record(self, name, args, a, b):
        kind = "value" if a[0] == b[0] == "ret" else "raise-vs-return"
        sig = f"shadow|{name}|{kind}"
        self.div_count[sig] = self.div_count.get(sig, 0) + 1
        if len(self.div) < MAX_DIV and sum(1 for d in self.div if d["sig"] == sig) < 3:
            self.div.append(
                {
                    "sig": sig,
                    "fn": name,
                    "args": repr(args)[:300],
                    "native": (a[0], repr(a[1])[:200]),
                    "pure": (b[0], repr(b[1])[:200]),
                }
            )

    def _wrap(self, cls, meth, mod, argrepr):
        orig = getattr(cls, meth)
        name = f"{cls.__name__}.{meth}"
        S = self

        def shadowed(self_, *a, **kw):
            if not mod._USE_CYTHON:  # inside the pure run of an enclosing shadowed call (or extension absent)
                return orig(self_, *a, **kw)
            S.calls[name] = S.calls.get(name, 0) + 1
            nat = S._outcome(lambda: orig(self_, *a, **kw))
            mod._USE_CYTHON = False
            try:
                pure = S._outcome(lambda: orig(self_, *a, **kw))
            finally:
                mod._USE_CYTHON = True
            S.compared[name] = S.compared.get(name, 0) + 1
            same = nat[0] == pure[0] and (nat[0] == "exc" or S._norm(nat[1]) == S._norm(pure[1]))
            if not same:
                S._record(name, argrepr(self_, a, kw), nat, pure)
            if nat[0] == "exc":
                raise nat[1]
            return nat[1]

        shadowed.__name__ = meth
        setattr(cls, meth, shadowed)
        self._orig.append((cls, meth, orig))

    def install(self) -> dict:
        import scriptplan.core.project as pm
        import scriptplan.core.working_hours as wm
        import scriptplan.scheduler.scoreboard as sm

        have = {"scoreboard": sm._USE_CYTHON, "time_utils": pm._USE_CYTHON, "working_hours": wm._USE_CYTHON}
        if sm._USE_CYTHON:
            sb = lambda s, a, kw: {"start": str(s.startDate), "res": s.resolution, "size": s.size, "a": a, "kw": kw}  # noqa: E731
            self._wrap(sm.Scoreboard, "idxToDate", sm, sb)
            self._wrap(sm.Scoreboard, "dateToIdx", sm, sb)
            self._wrap(sm.Scoreboard, "collectIntervals", sm, lambda s, a, kw: {"start": str(s.startDate), "res": s.resolution, "size": s.size, "iv": (str(a[0].start), str(a[0].end)), "min": a[1]})
        if pm._USE_CYTHON:
            pj = lambda s, a, kw: {"start": str(s.attributes.get("start")), "gran": s.attributes.get("scheduleGranularity"), "a": a, "kw": kw}  # noqa: E731
            self._wrap(pm.Project, "dateToIdx", pm, pj)
            self._wrap(pm.Project, "idxToDate", pm, pj)
        if wm._USE_CYTHON:
            wh = lambda s, a, kw: {"hours": s._hours, "a": a, "kw": kw, "slot_date": str(s.project.idxToDate(a[0])) if a and isinstance(a[0], int) and "tz" not in kw else None}  # noqa: E731
            self._wrap(wm.WorkingHours, "onShift", wm, wh)
            self._wrap(wm.WorkingHours, "get_daily_hours", wm, lambda s, a, kw: {"hours": s._hours, "a": a})
        self.installed = True
        return have

    def uninstall(self):
        for cls, meth, orig in self._orig:
            setattr(cls, meth, orig)
        self._orig.clear()
        self.installed = False

    def report(self) -> dict:
        return {"calls": dict(self.calls), "compared": dict(self.compared), "divergences": self.div, "divergence_counts": dict(self.div_count)}


def probe_client(project, rng, dense: bool = False) -> int:
    """Seeded client that queries the paired public functions near their edges (the running system rarely
    goes there by itself).  Returns the number of probes issued; outcomes are judged by the shadow monitor."""
    from datetime import timedelta

    from scriptplan.utils.time import TimeInterval

    n = 0

    def quiet(fn):
        nonlocal n
        n += 1
        try:
            fn()
        except Exception:  # noqa: BLE001
            pass

    start = project.attributes.get("start")
    end = project.attributes.get("end")
    if not start or not end:
        return 0
    if project.scoreboard is None:
        quiet(project.initScoreboards)
    size = project.scoreboardSize()
    gran = project.attributes.get("scheduleGranularity") or 3600
    edges = [-2, -1, 0, 1, size - 2, size - 1, size, size + 1, size * 2, rng.randrange(-5, size + 5), rng.randrange(0, max(1, size))]
    big = [2**31 // gran - 1, 2**31 // gran, 2**31 // gran + 1, 600000, 2**31 - 1, 2**31, -(2**31) - 1]
    for idx in edges + ([big[rng.randrange(len(big))]] if rng.random() < 0.5 else []):
        quiet(lambda idx=idx: project.idxToDate(idx))
        sb = project.scoreboard
        if sb is not None:
            for force in (False, True):
                quiet(lambda idx=idx, force=force: sb.idxToDate(idx, force))
    dates = [start - timedelta(seconds=1), start, start + timedelta(seconds=gran - 1), start + timedelta(seconds=gran), end - timedelta(seconds=1), end, end + timedelta(seconds=gran), start + timedelta(days=rng.randrange(-400, 400), seconds=rng.randrange(0, 86400)), start + timedelta(microseconds=rng.randrange(1, 999999)), start - timedelta(days=365 * 80), start + timedelta(days=365 * 80)]
    for d in dates:
        quiet(lambda d=d: project.dateToIdx(d))
        sb = project.scoreboard
        if sb is not None:
            for force in (False, True):
                quiet(lambda d=d, force=force: sb.dateToIdx(d, force))
    # interval scans with every predicate pattern the schedulers use, windows straddling the table
    for r in project.resources:
        rs = r.data[0] if getattr(r, "data", None) else None
        sb = getattr(rs, "scoreboard", None) if rs is not None else None
        if sb is None:
            continue
        for _ in range(3):
            a = start + timedelta(seconds=gran * rng.randrange(-3, max(1, size)))
            b = a + timedelta(seconds=gran * rng.randrange(0, max(2, size // 2 + 3)))
            iv = TimeInterval(a, b)
            for mind in (0, gran, gran * rng.randrange(1, 9)):
                for pred in (lambda v: v is None, lambda v: v is not None, lambda v: isinstance(v, int) and v & 2 == 2, lambda v: True, lambda v: False):
                    quiet(lambda iv=iv, mind=mind, pred=pred: sb.collectIntervals(iv, mind, pred))
    # minute-of-week sweep over the live shift tables
    seen = set()
    for holder in list(project.resources) + list(project.shifts):
        for scIdx in range(1):
            try:
                wh = holder.get("workinghours", scIdx)
            except Exception:  # noqa: BLE001
                wh = None
            cand = [wh]
            try:
                sh = holder.get("shifts", scIdx)
                if sh is not None:
                    cand.append(sh.get("workinghours", scIdx))
            except Exception:  # noqa: BLE001
                pass
            for w in cand:
                if w is None or not hasattr(w, "onShift") or id(w) in seen:
                    continue
                seen.add(id(w))
                for wd in range(7):
                    quiet(lambda w=w, wd=wd: w.get_daily_hours(wd))
                step = 1 if dense else max(1, (7 * 86400 // gran) // 400)
                off = rng.randrange(0, step)
                for slot in range(off, min(size, 7 * 86400 // gran + 1), step):
                    for tz in (None, "Asia/Tokyo", "America/New_York"):
                        quiet(lambda w=w, slot=slot, tz=tz: w.onShift(slot, timezone=tz))
    return n
