"""One integer decides everything: seeded PRNG + tape record/replay + minimiser.

A tape is a list of small non-negative integers consumed in order.  In generation
mode each draw is produced by a caller-supplied function of the PRNG and appended;
in replay mode the recorded value is returned instead (clamped to the legal range,
0 once the tape is exhausted).  0 always means the plain choice: lowest-numbered
process continues, the call succeeds, no jump.  Nothing in logging paths draws.
"""

from __future__ import annotations

import hashlib
import json
import random
import time
from typing import Callable


def rng_for(check: str, seed: int, index: int | str) -> random.Random:
    return random.Random(f"{check}:{seed}:{index}")


class Tape:
    def __init__(self, rng: random.Random | None = None, replay: list[int] | None = None):
        self.rng = rng
        self.replay = list(replay) if replay is not None else None
        self.rec: list[int] = []
        self.pos = 0

    @property
    def generating(self) -> bool:
        return self.replay is None

    def draw(self, n: int, gen: Callable[[random.Random], int] | None = None) -> int:
        """Return an integer in [0, n).  n <= 1 draws nothing from the PRNG but still
        occupies a tape cell, so that tapes stay aligned when choice sets shrink."""
        if n <= 0:
            n = 1
        if self.replay is None:
            if n == 1:
                v = 0
            elif gen is not None:
                v = int(gen(self.rng))
            else:
                v = self.rng.randrange(n)
        else:
            v = self.replay[self.pos] if self.pos < len(self.replay) else 0
        self.pos += 1
        if v < 0 or v >= n:
            v = 0
        self.rec.append(v)
        return v


def digest(obj) -> str:
    return hashlib.sha256(json.dumps(obj, sort_keys=True, separators=(",", ":"), default=str).encode()).hexdigest()[:16]


def minimise_tape(tape: list[int], still_fails: Callable[[list[int]], bool], budget_s: float = 60.0) -> list[int]:
    """Delta-debug a tape: truncate, zero blocks, zero single entries, lower entries."""
    t_end = time.time() + budget_s
    best = list(tape)

    def ok(cand):
        if time.time() > t_end:
            return False
        return still_fails(cand)

    # strip trailing zeros (exhausted tape reads 0)
    while best and best[-1] == 0:
        best.pop()
    # truncate from the end
    n = len(best)
    step = max(1, n // 2)
    while step >= 1 and time.time() < t_end:
        cand = best[: max(0, len(best) - step)]
        if len(cand) < len(best) and ok(cand):
            best = cand
            while best and best[-1] == 0:
                best.pop()
        else:
            step //= 2
    # zero blocks
    size = max(1, len(best) // 2)
    while size >= 1 and time.time() < t_end:
        i = 0
        while i < len(best) and time.time() < t_end:
            if any(best[i : i + size]):
                cand = best[:i] + [0] * len(best[i : i + size]) + best[i + size :]
                if ok(cand):
                    best = cand
            i += size
        size //= 2
    # lower non-zero entries
    for i in range(len(best)):
        if time.time() > t_end:
            break
        while best[i] > 1:
            cand = list(best)
            cand[i] = best[i] - 1 if best[i] < 4 else best[i] // 2
            if ok(cand):
                best = cand
            else:
                break
    while best and best[-1] == 0:
        best.pop()
    return best
