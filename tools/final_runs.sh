#!/bin/bash
# quick sweep over several seeds, then the full self-tests
cd "$(dirname "$0")/.." || exit 2
tools/sweep.sh "${1:-0 1 2 3 4 5}" "C11 C12 C13 C19 C20"
echo "== selftest $(date +%H:%M:%S)"
./check selftest --what all 2>&1 | tail -30
echo "== done $(date +%H:%M:%S)"
