"""C13 - compiled fast paths and pure-Python fallbacks are equivalent.

Fault: `import` - a meta-path finder makes any subset of the three extension modules fail to
import at worker start, so the repository's own try/except ImportError selection runs for real;
the extensions are rebuilt from the current .pyx in the scratch snapshot.
Oracles: [end-to-end] identical dates / report bytes / in-process CLI output / `plan report`
stdout+exit across all 8 subsets; [shadow] every paired call made during simulated runs (plus a
seeded probe client at the edges) agrees between native and pure-Python.  (DESIGN.md 5.5)
"""

from __future__ import annotations

import itertools
import json
import os
import time

from simplan import gen, harness, libworld, procworld, snapshot
from simplan.pool import Pool
from simplan.tape import Tape, digest, rng_for

PROP = "C13"
EXTS = ["scoreboard_cy", "time_utils_cy", "working_hours_cy"]
SUBSETS = [list(c) for n in range(4) for c in itertools.combinations(EXTS, n)]  # blocked sets; [] = all native
CONFIGS = [{"hashseed": 0 if i == 0 else 10 + i, "block": b} for i, b in enumerate(SUBSETS)]


def gen_texts(seed: int, idx: int, tier: str) -> list[str]:
    rng = rng_for(PROP, seed, idx)
    out = []
    for _ in range(rng.randrange(2, 5)):
        r = rng.random()
        if r < 0.6:
            d = gen.gen_project(rng, reports="mixed")
        elif r < 0.8:
            d = gen.gen_infeasible(rng)
        elif r < 0.93:
            d = gen.gen_project(rng, reports="mixed")
            d["text"], _e = gen.corrupt(rng, d["text"])
        else:
            fx = gen.fixtures(max_bytes=2500)
            d = dict(fx[rng.randrange(len(fx))]) if fx else gen.gen_project(rng)
        out.append(d["text"])
    if tier == "thorough" and idx % 6 == 0:
        # grid project: one week at one-minute resolution, so that the dense probe sweeps every minute of the week
        # over the live shift tables (three resources with independent seeded shifts, three time zones)
        from simplan.gen import _hours_spec, _night_then_day

        sh = []
        for i in range(3):
            lines = _night_then_day(rng) if rng.random() < 0.4 else [_hours_spec(rng)] + ([_hours_spec(rng)] if rng.random() < 0.5 else [])
            sh.append(f'shift g{i} "g{i}" {{\n' + "".join(f"  workinghours {ln}\n" for ln in lines) + "}")
        res = "\n".join(f'resource q{i} "Q{i}" {{ workinghours g{i} }}' for i in range(3))
        out.append('project grid "Grid" 2025-03-03 +1w {\n  timingresolution 1min\n  now 2025-03-03\n}\n' + "\n".join(sh) + "\n" + res + '\ntask a "A" { effort 3h allocate q0 }\ntask b "B" { effort 2h allocate q1 depends a }\n')
    if tier == "thorough" and idx % 40 == 7:
        out.append('project far "Far" 2025-01-06 +70y {\n  now 2025-01-06\n}\nresource r0 "R0" {}\ntask a "A" { effort 8h allocate r0 }\ntask z "Z" { start 2094-06-01 duration 4h }\n')
    return out


def shadow_job(args: dict) -> dict:
    texts = gen_texts(args["seed"], args["idx"], args["tier"])
    wd = snapshot.new_scratch("c13s")
    try:
        r = libworld.fork_call(libworld.c13_shadow_run, (texts, f"{PROP}:{args['seed']}:{args['idx']}:probe", wd, args["tier"] == "thorough"), 1800)
    finally:
        snapshot.drop_scratch(wd)
    r["idx"] = args["idx"]
    if r.get("divergences") or args.get("sample"):
        r["texts"] = texts
    return r


def e2e_job(args: dict) -> dict:
    """Library + in-process CLI view of every text of the pool, in whatever configuration this worker has."""
    texts = gen_texts(args["seed"], args["idx"], args["tier"])
    out = []
    for text in texts:
        wd = snapshot.new_scratch("c13e")
        try:
            r = libworld.fork_call(libworld.c12_baseline, (text, libworld.CLOCKS[:1], wd), 900)
        finally:
            snapshot.drop_scratch(wd)
        if "by_clock" in r:
            for b in r["by_clock"].values():
                for k in ("parse_steps", "resched_steps", "report_steps"):
                    b.pop(k, None)
        out.append(r)
    # the real `plan report` entry point, one simulated process, fault-free
    rng = rng_for(PROP, args["seed"], f"{args['idx']}:cli")
    cli = []
    for j, text in enumerate(texts[:2]):
        fmt = rng.choice(["json", "csv"])
        argv = ["plan", "--quiet", "report"] + (["--csv"] if fmt == "csv" else []) + ["../in/p.tjp"]
        spec = {"files": {"in/p.tjp": text}, "decoys": {}, "procs": [{"argv": argv, "stdin_text": None}], "policy": "seq", "listing": "perm", "name_salt": j}
        w = procworld.run_world(spec, Tape(rng_for(PROP, args["seed"], f"{args['idx']}:cli:{j}")))
        p = w["procs"][0]
        cli.append([p["exit"], p["stdout"], w["initial"] == w["final"]])
    return {"idx": args["idx"], "lib": out, "cli": cli, "digest": digest([out, cli])}


COUNTS = {"quick": {"shadow": 130, "e2e": 18, "wall": 110}, "thorough": {"shadow": 2500, "e2e": 300, "wall": 1700}}
ASSUMPTIONS = [
    "the pure-Python fallback is the reference model; agreement means equal return values (datetimes and intervals field by field, floats exactly) or both raising - exception types are not compared",
    "arguments are those the simulated workloads produce plus a seeded probe client at the edges: sampling, not the exhaustive grid",
    "the 8 import-failure subsets are enumerated exhaustively; the extensions are rebuilt from the snapshot's .pyx for every run",
    "shadow execution calls predicates and pure functions twice; they are side-effect free in this code base",
]


def main() -> int:
    import argparse

    ap = argparse.ArgumentParser()
    ap.add_argument("--tier", default=os.environ.get("VERIF_TIER", "quick"))
    ap.add_argument("--replay")
    ap.add_argument("--count", type=int)
    ap.add_argument("--workers", type=int, default=min(16, os.cpu_count() or 4))
    a = ap.parse_args()
    tier = a.tier if a.tier in ("quick", "thorough") else "quick"
    seed = harness.env_seed()
    t0 = time.time()
    try:
        snap = snapshot.make_snapshot(build=True)
    except snapshot.SnapshotError as e:
        print(f"HARNESS-ERROR property={PROP} snapshot/build failed: {e}")
        return 2
    pool = Pool(snap["path"], CONFIGS, total_workers=a.workers)
    me = "checks.c13"
    if a.replay:
        with open(a.replay, encoding="utf-8") as f:
            rp = json.load(f)
        if rp["oracle"] == "shadow":
            res = pool.run([{"cfg": 0, "mod": me, "fn": "shadow_job", "args": {"seed": rp["seed"], "idx": rp["index"], "tier": rp["tier"]}}])[0]
            sigs = sorted(res["res"].get("divergence_counts", {})) if res and res.get("ok") else []
        else:
            rr = pool.run([{"cfg": c, "mod": me, "fn": "e2e_job", "args": {"seed": rp["seed"], "idx": rp["index"], "tier": rp["tier"]}} for c in (0, rp["cfg"])])
            sigs = [rp["sig"]] if all(r and r.get("ok") for r in rr) and rr[0]["res"]["digest"] != rr[1]["res"]["digest"] else []
        print(f"replay: sigs={sigs} expected={rp['sig']}")
        if rp["sig"] in sigs:
            print(f"VIOLATION property={PROP} replay={a.replay}")
            return 1
        print(f"OK property={PROP} (replay no longer violates)")
        return 0
    n_sh = a.count or COUNTS[tier]["shadow"]
    n_e = max(2, (a.count // 6) if a.count else COUNTS[tier]["e2e"])
    wall = harness.env_budget(COUNTS[tier]["wall"])
    jobs = [{"cfg": 0, "mod": me, "fn": "shadow_job", "args": {"seed": seed, "idx": i, "tier": tier, "sample": i < 2}} for i in range(n_sh)]
    ejobs = [{"cfg": c, "mod": me, "fn": "e2e_job", "args": {"seed": seed, "idx": 100000 + i, "tier": tier}} for i in range(n_e) for c in range(len(CONFIGS))]
    res = pool.run(jobs + ejobs, wall_cap=wall)
    herr: list[str] = []
    V = []
    shadow_done = []
    calls: dict[str, int] = {}
    compared: dict[str, int] = {}
    probes = 0
    for j, r in enumerate(res[:n_sh]):
        if r is None:
            continue
        if not r.get("ok"):
            herr.append(r.get("harness") or r.get("error", "") + r.get("tb", "")[-500:])
            continue
        s = r["res"]
        if "harness" in s or s.get("wall_timeout"):
            herr.append(f"shadow run {j}: {s.get('harness', 'wall timeout')}")
            continue
        shadow_done.append(s)
        probes += s.get("probes", 0)
        for k, n in s["calls"].items():
            calls[k] = calls.get(k, 0) + n
        for k, n in s["compared"].items():
            compared[k] = compared.get(k, 0) + n
        for d in s["divergences"]:
            V.append(({"kind": "shadow", "idx": s["idx"], "texts": s.get("texts")}, {"oracle": "shadow", "sig": d["sig"], "detail": f"{d['fn']}({d['args']}): native -> {d['native']}, pure Python -> {d['pure']}"}))
    e2e_groups = 0
    e2e_compared = 0
    for i in range(n_e):
        grp = res[n_sh + i * len(CONFIGS) : n_sh + (i + 1) * len(CONFIGS)]
        if any(g is None for g in grp):
            continue
        bad = [g for g in grp if not g.get("ok")]
        if bad:
            herr.append(bad[0].get("harness") or bad[0].get("error", "") + bad[0].get("tb", "")[-500:])
            continue
        e2e_groups += 1
        ref = grp[0]["res"]
        for c, g in enumerate(grp[1:], 1):
            e2e_compared += 1
            if g["res"]["digest"] != ref["digest"]:
                what = "library" if g["res"]["lib"] != ref["lib"] else "plan-cli"
                detail = f"pool {ref['idx']}: configuration with {SUBSETS[c] or 'nothing'} blocked differs from all-native in the {what} view"
                if what == "library":
                    for ta, tb in zip(ref["lib"], g["res"]["lib"]):
                        if ta != tb:
                            ba, bb = list(ta.get("by_clock", {}).values())[:1], list(tb.get("by_clock", {}).values())[:1]
                            if ba and bb:
                                keys = [k for k in ba[0] if ba[0].get(k) != bb[0].get(k)]
                                detail += f"; differing keys {keys}"
                                if "dates" in keys:
                                    dd = next(((x, y) for x, y in zip(ba[0]["dates"], bb[0]["dates"]) if x != y), None)
                                    detail += f"; first date difference native={dd[0] if dd else None} blocked={dd[1] if dd else None}"
                            break
                V.append(({"kind": "e2e", "idx": ref["idx"], "cfg": c}, {"oracle": "end-to-end", "sig": f"end-to-end|{what}|{'+'.join(SUBSETS[c])}", "detail": detail}))
    new, old, known_lines = harness.split_known(PROP, [v for _, v in V])
    first: dict[str, tuple] = {}
    for s, v in V:
        if v in new and v["sig"] not in first:
            first[v["sig"]] = (s, v)
    reported = []
    for sig, (s, v) in list(first.items())[:6]:
        payload = {"property": PROP, "sig": sig, "oracle": v["oracle"], "detail": v["detail"], "seed": seed, "index": s["idx"], "tier": tier, "cfg": s.get("cfg", 0), "worker_config": CONFIGS[s.get("cfg", 0)], "texts": s.get("texts"), "tree_digest": snap["digest"]}
        reported.append((v, harness.write_replay(PROP, seed, payload)))
    wall_s = time.time() - t0
    natives = sorted({json.dumps(w.get("native"), sort_keys=True) + " blocked=" + ",".join(w.get("block") or []) for w in pool.worker_infos})
    cov = {
        "evaluations": len(shadow_done) + e2e_compared,
        "distinct_nontrivial": len({(k) for k, n in compared.items() if n > 0}) + e2e_compared,
        "rule": "shadow evaluation = one all-native interpreter running 2-4 texts end to end plus the probe client, every paired call compared; end-to-end evaluation = one (pool, blocked-subset) pair compared with the all-native run of the same pool. distinct_nontrivial = number of distinct paired functions actually compared at least once + number of (pool, subset) comparisons (each subset blocks at least one extension, so each is non-trivial)",
        "samples": [{"shadow_calls": s["calls"], "outcomes": s["outcomes"], "text_head": (s.get("texts") or [""])[0][:300]} for s in shadow_done if s.get("texts")][:2] or [{"note": "none"}],
        "paired_calls_intercepted": dict(sorted(calls.items())),
        "paired_calls_compared": dict(sorted(compared.items())),
        "probe_client_queries": probes,
        "import_fault_subsets": SUBSETS,
        "e2e_pools_compared_across_all_subsets": e2e_groups,
        "worker_native_flags_observed": natives,
        "exhaustive": False,
        "runs_per_hour": int((len(shadow_done) + e2e_compared) / max(wall_s, 1e-6) * 3600),
        "known_findings_hit": len(old),
        "tree_digest": snap["digest"],
        "harness_errors": len(herr),
    }
    harness.write_evidence(PROP, tier, seed, cov, ASSUMPTIONS, wall_s, len(reported))
    print(f"{PROP} {tier}: {len(shadow_done)} shadow runs ({sum(compared.values())} paired calls compared, {probes} probes), {e2e_groups} pools x 8 subsets, {wall_s:.0f}s")
    return harness.finish(PROP, reported, known_lines, herr)
