"""Snapshot /repo's current working tree into a scratch directory and build it there.

Checks never import scriptplan from /repo directly: the editable install would pick
up whatever *.so happen to lie around (they are git-ignored and absent after a fresh
restore), and a check has to rebuild from the sources as they are *now*.
"""

from __future__ import annotations

import atexit
import hashlib
import os
import shutil
import subprocess
import sys
import time

REPO = os.environ.get("SIMPLAN_REPO", "/repo")
PY = sys.executable
PREFIX = "spv-"
EXT_NAMES = ("scoreboard_cy", "time_utils_cy", "working_hours_cy")

_live: list[str] = []


def scratch_root() -> str:
    for cand in ("/dev/shm", os.environ.get("TMPDIR") or "/tmp"):
        if os.path.isdir(cand) and os.access(cand, os.W_OK):
            return cand
    return "/tmp"


def _pid_alive(pid: int) -> bool:
    try:
        os.kill(pid, 0)
    except ProcessLookupError:
        return False
    except PermissionError:
        return True
    return True


def gc_stale() -> int:
    """Remove scratch directories whose owning process is gone."""
    n = 0
    root = scratch_root()
    try:
        names = os.listdir(root)
    except OSError:
        return 0
    for name in names:
        if not name.startswith(PREFIX):
            continue
        parts = name.split("-")
        try:
            pid = int(parts[1])
        except (IndexError, ValueError):
            continue
        if not _pid_alive(pid):
            shutil.rmtree(os.path.join(root, name), ignore_errors=True)
            n += 1
    return n


def _cleanup() -> None:
    for d in _live:
        shutil.rmtree(d, ignore_errors=True)
    _live.clear()


atexit.register(_cleanup)


def new_scratch(tag: str) -> str:
    d = os.path.join(scratch_root(), f"{PREFIX}{os.getpid()}-{tag}-{int(time.time() * 1000) % 10**9}")
    os.makedirs(d)
    _live.append(d)
    return d


def drop_scratch(d: str) -> None:
    shutil.rmtree(d, ignore_errors=True)
    if d in _live:
        _live.remove(d)


def tree_digest(root: str) -> str:
    h = hashlib.sha256()
    for dirpath, dirnames, filenames in os.walk(os.path.join(root, "scriptplan")):
        dirnames.sort()
        if "__pycache__" in dirnames:
            dirnames.remove("__pycache__")
        for fn in sorted(filenames):
            if fn.endswith((".so", ".c", ".pyc")):
                continue
            p = os.path.join(dirpath, fn)
            h.update(os.path.relpath(p, root).encode())
            with open(p, "rb") as f:
                h.update(hashlib.sha256(f.read()).digest())
    return h.hexdigest()[:16]


class SnapshotError(Exception):
    pass


def make_snapshot(build: bool = True) -> dict:
    """Copy the working tree of REPO and (optionally) build the three extensions.

    Returns {"path", "digest", "built", "build_s"}.  Raises SnapshotError if the
    build does not produce all three extension modules.
    """
    gc_stale()
    d = new_scratch("snap")
    t0 = time.time()
    items = [os.path.join(REPO, x) for x in ("scriptplan", "setup.py", "pyproject.toml", "README.md", "MANIFEST.in", "LICENSE")]
    items = [x for x in items if os.path.exists(x)]
    subprocess.run(
        ["rsync", "-a", "--exclude=*.so", "--exclude=*.c", "--exclude=__pycache__", "--exclude=*.pyc", *items, d + "/"],
        check=True,
    )
    built = False
    if build:
        env = dict(os.environ)
        env.pop("SCRIPTPLAN_NO_CYTHON", None)
        r = subprocess.run(
            [PY, "setup.py", "-q", "build_ext", "--inplace", "-j", "3"],
            cwd=d,
            env=env,
            stdout=subprocess.PIPE,
            stderr=subprocess.STDOUT,
            text=True,
        )
        cy = os.path.join(d, "scriptplan", "_cython")
        have = [n for n in EXT_NAMES if any(f.startswith(n + ".") and f.endswith(".so") for f in os.listdir(cy))]
        if r.returncode != 0 or len(have) != len(EXT_NAMES):
            raise SnapshotError(f"build_ext failed (rc={r.returncode}, built={have}):\n{r.stdout[-3000:]}")
        built = True
        shutil.rmtree(os.path.join(d, "build"), ignore_errors=True)
    return {"path": d, "digest": tree_digest(d), "built": built, "build_s": round(time.time() - t0, 2)}
