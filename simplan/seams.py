"""Seams installed inside a simulated process (a forked child of the worker).

Every file-system call on a path inside the world, every temp-name / token draw,
every clock read and the stdio streams go through here.  Each world-visible call
is one *seam event*: the child sends it to the coordinator, parks, and continues
with the decision it gets back (proceed, fail with errno, short/torn data,
KeyboardInterrupt).  Nothing in /repo is modified: all seams are monkeypatches.
"""

from __future__ import annotations

import builtins
import io
import json
import os
import random
import stat as _stat
import sys
from datetime import datetime as _real_datetime

WORLD_ROOTS = ("cwd", "tmp", "alt-tmp", "in", "tmp-real")
NAME_ALPHABET = "abcdefghijklmnopqrstuvwxyz0123456789_"
PROBE_PREFIX = "pr0be"  # names of tempfile's own writability probe (tempfile._get_default_tempdir)


class CoordinatorGone(BaseException):
    pass


class _ScanIter:
    def __init__(self, entries):
        self._it = iter(entries)

    def __iter__(self):
        return self

    def __next__(self):
        return next(self._it)

    def __enter__(self):
        return self

    def __exit__(self, *a):
        return False

    def close(self):
        pass


class SeededNames:
    """Replacement for tempfile._RandomNameSequence."""

    def __init__(self, seed, prefix=""):
        self.rng = random.Random(f"names:{seed}")
        self.prefix = prefix

    def __iter__(self):
        return self

    def __next__(self):
        return self.prefix + "".join(self.rng.choice(NAME_ALPHABET) for _ in range(8 - len(self.prefix)))


class FileProxy:
    """Wraps a real file object; read / flush / close (and every 8 KiB written) are seam events."""

    def __init__(self, seams, f, rel, writable):
        self._s = seams
        self._f = f
        self._rel = rel
        self._w = writable
        self._pending = 0
        self._closed = False

    # -- reading
    def read(self, *a):
        d = self._s.ask("read", self._rel)
        data = self._f.read(*a)
        if d.get("a") == "short":
            data = data[: int(len(data) * d.get("frac", 0.5))]
        return data

    def readline(self, *a):
        return self._f.readline(*a)

    def readlines(self, *a):
        self._s.ask("read", self._rel)
        return self._f.readlines(*a)

    def __iter__(self):
        self._s.ask("read", self._rel)
        return iter(self._f)

    # -- writing
    def _torn(self, d):
        try:
            self._f.flush()
            size = os.fstat(self._f.fileno()).st_size
            os.ftruncate(self._f.fileno(), int(size * d.get("frac", 0.5)))
        except Exception:
            pass

    def write(self, s):
        n = self._f.write(s)
        self._pending += len(s)
        if self._pending >= 8192:
            self._pending = 0
            self._s.ask("write", self._rel, on_err=self._torn)
        return n

    def writelines(self, lines):
        for ln in lines:
            self.write(ln)

    def flush(self):
        if self._w and not self._closed:
            self._s.ask("flush", self._rel, on_err=self._torn)
        return self._f.flush()

    def close(self):
        if self._closed:
            return
        self._closed = True
        if self._w:
            try:
                self._s.ask("close", self._rel, on_err=self._torn)
            except BaseException:
                try:
                    self._f.close()
                except Exception:
                    pass
                raise
        self._f.close()

    @property
    def closed(self):
        return self._closed

    def __enter__(self):
        return self

    def __exit__(self, *a):
        self.close()
        return False

    def __getattr__(self, name):
        return getattr(self._f, name)


class StdoutProxy:
    """sys.stdout of a simulated process: bytes go to a capture file; write/flush are seam events."""

    def __init__(self, seams, f):
        self._s = seams
        self._f = f
        self.encoding = "utf-8"
        self.errors = "strict"

    def write(self, s):
        if s:  # click probes the stream with empty writes; a closed pipe only shows on real output
            self._s.ask("stdout-write", "<stdout>")
        return self._f.write(s)

    def flush(self):
        self._s.ask("stdout-flush", "<stdout>")
        return self._f.flush()

    def isatty(self):
        return False

    def fileno(self):
        return self._f.fileno()

    def writable(self):
        return True

    def readable(self):
        return False

    @property
    def closed(self):
        return self._f.closed

    @property
    def buffer(self):
        return _BinaryOut(self)

    def close(self):
        pass


class _BinaryOut:
    """sys.stdout.buffer of a simulated process."""

    def __init__(self, text):
        self._t = text

    def write(self, b):
        self._t.write(bytes(b).decode("utf-8", "surrogateescape"))
        return len(b)

    def flush(self):
        self._t.flush()

    def isatty(self):
        return False

    def writable(self):
        return True


class StdinProxy:
    def __init__(self, seams, text):
        self._s = seams
        # the real sys.stdin on POSIX is opened with newline="\n": no translation on read (checked against
        # a real interpreter: printf 'a\r\nb' | python -c 'print(repr(sys.stdin.read()))' -> 'a\r\nb')
        self._text = text
        self._pos = 0
        self.encoding = "utf-8"

    def read(self, n=-1):
        d = self._s.ask("stdin-read", "<stdin>")
        data = self._text[self._pos :] if n is None or n < 0 else self._text[self._pos : self._pos + n]
        if d.get("a") == "short":
            data = data[: int(len(data) * d.get("frac", 0.5))]
            self._text = self._text[: self._pos + len(data)]
        self._pos += len(data)
        return data

    def readline(self):
        i = self._text.find("\n", self._pos)
        j = len(self._text) if i < 0 else i + 1
        data = self._text[self._pos : j]
        self._pos = j
        return data

    def readlines(self, hint=-1):
        out = []
        while True:
            ln = self.readline()
            if not ln:
                return out
            out.append(ln)

    def __iter__(self):
        return iter(self.readlines())

    def isatty(self):
        return False

    def readable(self):
        return True

    def fileno(self):
        raise io.UnsupportedOperation("fileno")

    def close(self):
        pass

    closed = False
    errors = "surrogateescape"
    name = "<stdin>"
    mode = "r"

    @property
    def buffer(self):
        return _BinaryIn(self)


class _BinaryIn:
    """sys.stdin.buffer of a simulated process: the same stream as bytes (one seam event per read, like the text view)."""

    def __init__(self, text):
        self._t = text

    def read(self, n=-1):
        if n is not None and n >= 0:
            # byte counts: read everything that is left and give back at most n bytes
            t = self._t
            rest = t._text[t._pos :].encode("utf-8", "surrogateescape")
            d = t._s.ask("stdin-read", "<stdin>")
            if d.get("a") == "short":
                rest = rest[: int(len(rest) * d.get("frac", 0.5))]
                t._text = t._text[: t._pos] + rest.decode("utf-8", "surrogateescape")
            chunk = rest[:n]
            t._pos += len(chunk.decode("utf-8", "surrogateescape"))
            return chunk
        return self._t.read().encode("utf-8", "surrogateescape")

    def readable(self):
        return True

    def close(self):
        pass

    closed = False


class ChildSeams:
    def __init__(self, sock, proc: int, world: str, cfg: dict):
        self.sock = sock
        self.rf = sock.makefile("rb")
        self.proc = proc
        self.world = os.path.realpath(world)
        self.cfg = cfg
        self.clock = float(cfg.get("t0", 1_750_000_000.0))
        self.fdmap: dict[int, str] = {}
        self.o: dict[str, object] = {}
        self.nevents = 0
        self.last = None  # natural outcome (0 / errno) of the real call made after the previous event
        self.points = False  # install_call_points: an `after` event follows every successful creating / removing call
        self.cur = None

    def call(self, fn, *a, **kw):
        try:
            res = fn(*a, **kw)
        except OSError as e:
            self.last = e.errno or -1
            raise
        self.last = 0
        if self.points and self.cur is not None and self.cur[0] in ("create", "mkdir", "open-w", "unlink", "rmdir", "rename"):
            # the system call has returned; this is where a signal that arrived meanwhile is acted upon
            op, path = self.cur
            self.cur = None
            try:
                self.ask("after", path, of=op)
            except BaseException:
                if op in ("create", "open-w") and isinstance(res, int):
                    pass  # the descriptor is lost with the discarded result, as in the real interpreter
                raise
        return res

    # ------------------------------------------------------------ protocol
    def ask(self, op, path, on_err=None, **kw):
        msg = {"p": self.proc, "op": op, "path": path, "r": self.last}
        self.last = None
        self.cur = (op, path)
        if kw:
            msg.update(kw)
        self.nevents += 1
        try:
            self.sock.sendall(json.dumps(msg).encode() + b"\n")
            line = self.rf.readline()
        except OSError:
            os._exit(97)
        if not line:
            os._exit(97)
        d = json.loads(line)
        if "clk" in d:
            self.clock = d["clk"]
        a = d.get("a")
        if a == "sigint":
            import signal

            h = signal.getsignal(signal.SIGINT)
            if h is signal.default_int_handler or h is None:
                raise KeyboardInterrupt
            if h == signal.SIG_IGN:
                return {"a": "ok"}
            if h == signal.SIG_DFL:  # the program removed Python's handler: the kernel terminates it
                self.tell({"p": self.proc, "op": "exit", "code": -2, "how": "killed-by-SIGINT"})
                os._exit(0)
            h(signal.SIGINT, sys._getframe(1))  # the program's own handler runs (and may raise)
            return {"a": "ok"}
        if a == "err":
            if on_err is not None:
                on_err(d)
            e = int(d["errno"])
            if e == 32 and op.startswith("stdout"):
                # the kernel raises SIGPIPE before write() returns EPIPE; Python ignores SIGPIPE by default, but a
                # program that restored the default disposition is terminated on the spot: no exception, no finally
                import signal

                if signal.getsignal(signal.SIGPIPE) == signal.SIG_DFL:
                    self.tell({"p": self.proc, "op": "exit", "code": -13, "how": "killed-by-SIGPIPE"})
                    os._exit(0)
            raise OSError(e, os.strerror(e), self.world + "/" + path if not path.startswith("<") else path)
        return d

    def tell(self, msg):
        msg["r"] = self.last
        try:
            self.sock.sendall(json.dumps(msg).encode() + b"\n")
        except OSError:
            pass

    # ------------------------------------------------------------ path classification
    def rel(self, path):
        try:
            p = os.fspath(path)
        except TypeError:
            return None
        if isinstance(p, bytes):
            p = os.fsdecode(p)
        ap = os.path.abspath(p)
        if not ap.startswith(self.world + "/"):
            # tolerate symlinked scratch roots
            return None
        r = ap[len(self.world) + 1 :]
        first = r.split("/", 1)[0]
        if first not in WORLD_ROOTS:
            return None
        return r

    def resolve(self, path, dir_fd=None):
        if isinstance(path, int):
            return self.fdmap.get(path)
        if dir_fd is not None:
            base = self.fdmap.get(dir_fd)
            if base is None:
                return None
            try:
                p = os.fspath(path)
            except TypeError:
                return None
            if isinstance(p, bytes):
                p = os.fsdecode(p)
            if os.path.isabs(p):
                return self.rel(p)
            return os.path.normpath(base + "/" + p)
        return self.rel(path)

    # ------------------------------------------------------------ install
    def install(self):
        o = self.o
        S = self
        o["open"] = builtins.open

        def p_open(file, mode="r", buffering=-1, encoding=None, errors=None, newline=None, closefd=True, opener=None):
            if isinstance(file, int):
                rel = S.fdmap.get(file)
                f = o["open"](file, mode, buffering, encoding, errors, newline, closefd, opener)
                if rel is None:
                    return f
                return FileProxy(S, f, rel, any(c in mode for c in "wax+"))
            rel = S.rel(file)
            if rel is None:
                return o["open"](file, mode, buffering, encoding, errors, newline, closefd, opener)
            writing = any(c in mode for c in "wax+")
            S.ask("open-w" if writing else "open-r", rel, mode=mode)
            f = S.call(o["open"], file, mode, buffering, encoding, errors, newline, closefd, opener)
            return FileProxy(S, f, rel, writing)

        builtins.open = p_open
        io.open = p_open

        def wrap(name, op):
            orig = getattr(os, name)
            o[name] = orig

            def w(path, *a, **kw):
                rel = S.resolve(path, kw.get("dir_fd"))
                if rel is None:
                    return orig(path, *a, **kw)
                S.ask(op, rel)
                return S.call(orig, path, *a, **kw)

            w.__name__ = name
            setattr(os, name, w)

        wrap("stat", "stat")
        wrap("lstat", "stat")
        wrap("mkdir", "mkdir")
        wrap("unlink", "unlink")
        wrap("remove", "unlink")
        wrap("rmdir", "rmdir")
        wrap("chmod", "chmod")
        wrap("access", "stat")

        for name in ("rename", "replace"):
            orig = getattr(os, name)
            o[name] = orig

            def wr(src, dst, *a, _orig=orig, **kw):
                rs = S.resolve(src, kw.get("src_dir_fd"))
                rd = S.resolve(dst, kw.get("dst_dir_fd"))
                if rs is None and rd is None:
                    return _orig(src, dst, *a, **kw)
                S.ask("rename", rs or "<outside>", dst=rd or "<outside>")
                return S.call(_orig, src, dst, *a, **kw)

            setattr(os, name, wr)

        o["os_open"] = os.open

        def p_os_open(path, flags, mode=0o777, *, dir_fd=None):
            rel = S.resolve(path, dir_fd)
            if rel is None:
                return o["os_open"](path, flags, mode, dir_fd=dir_fd)
            if flags & os.O_CREAT:
                op = "create"
            else:
                isdir = False
                try:
                    st = o["stat"](path, dir_fd=dir_fd) if dir_fd is not None else o["stat"](path)
                    isdir = _stat.S_ISDIR(st.st_mode)
                except OSError:
                    pass
                if isdir:
                    op = "opendir"
                elif flags & (os.O_WRONLY | os.O_RDWR):
                    op = "open-w"
                else:
                    op = "open-r"
            S.ask(op, rel)
            fd = S.call(o["os_open"], path, flags, mode, dir_fd=dir_fd)
            S.fdmap[fd] = rel
            return fd

        os.open = p_os_open
        o["os_close"] = os.close

        def p_os_close(fd):
            S.fdmap.pop(fd, None)
            return o["os_close"](fd)

        os.close = p_os_close

        o["scandir"] = os.scandir

        def p_scandir(path="."):
            rel = S.resolve(path)
            if rel is None:
                return o["scandir"](path)
            d = S.ask("scandir", rel)
            with S.call(o["scandir"], path) as it:
                entries = sorted(it, key=lambda e: e.name)
            perm = d.get("perm", 0)
            if perm:
                random.Random(perm).shuffle(entries)
            return _ScanIter(entries)

        os.scandir = p_scandir
        o["listdir"] = os.listdir

        def p_listdir(path="."):
            rel = S.resolve(path)
            if rel is None:
                return o["listdir"](path)
            d = S.ask("scandir", rel)
            names = sorted(S.call(o["listdir"], path))
            perm = d.get("perm", 0)
            if perm:
                random.Random(perm).shuffle(names)
            return names

        os.listdir = p_listdir

        # ---- pid, names, tokens
        pid = 1000 + self.proc
        os.getpid = lambda: pid
        import secrets
        import tempfile

        nseed = self.cfg.get("name_seed", self.proc)
        tempfile._name_sequence = SeededNames(nseed)
        tempfile._RandomNameSequence = lambda: SeededNames(f"{nseed}:probe", PROBE_PREFIX)  # used by _get_default_tempdir
        tempfile.tempdir = None
        cands = [self.world + "/tmp", self.world + "/alt-tmp", self.world + "/cwd"]
        tempfile._candidate_tempdir_list = lambda: list(cands)
        trng = random.Random(f"tok:{nseed}")
        secrets.token_hex = lambda nbytes=None: "".join(trng.choice("0123456789abcdef") for _ in range(2 * (nbytes or 32)))

        # ---- clock
        import time as _time

        real_time, real_mono = _time.time, _time.monotonic
        _time.time = lambda: S.clock
        _time.time_ns = lambda: int(S.clock * 1e9)
        # the no-argument forms of the struct_time / formatting functions read the real clock in C
        o_local, o_gm, o_strf, o_ctime = _time.localtime, _time.gmtime, _time.strftime, _time.ctime
        _time.localtime = lambda secs=None: o_local(S.clock if secs is None else secs)
        _time.gmtime = lambda secs=None: o_gm(S.clock if secs is None else secs)
        _time.strftime = lambda fmt, t=None: o_strf(fmt, o_local(S.clock) if t is None else t)
        _time.ctime = lambda secs=None: o_ctime(S.clock if secs is None else secs)
        install_datetime_seam(lambda: S.clock)
        # names bound by "from time import time" in scriptplan modules
        for mn, mod in list(sys.modules.items()):
            if mod is not None and (mn == "scriptplan" or mn.startswith("scriptplan.")):
                for an, av in list(vars(mod).items()):
                    if av is real_time:
                        setattr(mod, an, _time.time)
        # every other source of entropy a program could use for "unique" names
        urng = random.Random(f"urandom:{nseed}")
        os.urandom = lambda n: bytes(urng.getrandbits(8) for _ in range(n))
        random.seed(f"random:{nseed}")
        try:
            import uuid

            uuid.uuid4 = lambda: uuid.UUID(int=urng.getrandbits(128), version=4)
        except Exception:
            pass


def install_datetime_seam(clock_fn):
    """Rebind the name `datetime` in the three scriptplan modules that read the clock."""

    class _Meta(type):
        def __instancecheck__(cls, inst):
            return isinstance(inst, _real_datetime)

        def __subclasscheck__(cls, sub):
            return issubclass(sub, _real_datetime)

    class SimDatetime(_real_datetime, metaclass=_Meta):
        def __new__(cls, *a, **kw):
            return _real_datetime(*a, **kw)

        @classmethod
        def now(cls, tz=None):
            return _real_datetime.fromtimestamp(clock_fn(), tz)

        @classmethod
        def today(cls):
            return _real_datetime.fromtimestamp(clock_fn())

        @classmethod
        def utcnow(cls):
            from datetime import timezone

            return _real_datetime.fromtimestamp(clock_fn(), timezone.utc).replace(tzinfo=None)

        @classmethod
        def fromtimestamp(cls, *a, **kw):
            return _real_datetime.fromtimestamp(*a, **kw)

        @classmethod
        def strptime(cls, *a, **kw):
            return _real_datetime.strptime(*a, **kw)

        @classmethod
        def combine(cls, *a, **kw):
            return _real_datetime.combine(*a, **kw)

        @classmethod
        def fromisoformat(cls, *a, **kw):
            return _real_datetime.fromisoformat(*a, **kw)

    import importlib

    for modname in ("scriptplan.utils.time", "scriptplan.parser.macro_processor", "scriptplan.utils.message_handler"):
        try:
            importlib.import_module(modname)
        except Exception:
            continue
    n = 0
    # every name in a scriptplan module that is bound to the real datetime class (from datetime import datetime)
    for mn, mod in list(sys.modules.items()):
        if mod is None or not (mn == "scriptplan" or mn.startswith("scriptplan.")):
            continue
        for an, av in list(vars(mod).items()):
            if av is _real_datetime:
                setattr(mod, an, SimDatetime)
                n += 1
    return n


POINT_TOOL_ID = 4


def install_call_points(S, module) -> int:
    """Asynchronous-exception points inside one module (plan.py), at the places where CPython really runs a
    pending signal handler: after a call into C returns (C_RETURN: the call has happened, its result is not yet
    stored) and on function entry (PY_START = RESUME).  Each is a seam event `point`; an exception raised by the
    callback (the KeyboardInterrupt of the default SIGINT handler) surfaces at that very instruction, exactly as it
    does when the interpreter runs the handler there.  (Source lines would be the wrong grain: the `try:` of a
    nested block is a NOP outside every exception-table range, where no handler ever runs.)  The companion of
    this hook is S.points: a seam event `after` following every successful creating / removing file-system call."""
    import gc
    import types

    mon = sys.monitoring
    fn = module.__file__
    codes: list = []

    def add(c):
        if c in codes:
            return
        codes.append(c)
        for k in c.co_consts:
            if isinstance(k, types.CodeType):
                add(k)

    for o in gc.get_objects():
        if isinstance(o, types.FunctionType) and o.__code__.co_filename == fn:
            add(o.__code__)
    base = os.path.basename(fn)

    def line_of(code, off):
        ln = code.co_firstlineno
        for a, b, l in code.co_lines():
            if a <= off < b and l is not None:
                return l
        return ln

    def on_c_return(code, off, callable_, arg0):
        name = getattr(callable_, "__qualname__", None) or getattr(callable_, "__name__", None) or type(callable_).__name__
        S.ask("point", "<%s:%s:%d>" % (base, code.co_name, line_of(code, off)), callee=str(name)[:60])

    def on_py_start(code, off):
        S.ask("point", "<%s:%s:%d>" % (base, code.co_name, code.co_firstlineno), callee="<entry>")

    mon.use_tool_id(POINT_TOOL_ID, "simplan-points")
    mon.register_callback(POINT_TOOL_ID, mon.events.C_RETURN, on_c_return)
    mon.register_callback(POINT_TOOL_ID, mon.events.PY_START, on_py_start)
    for c in codes:
        mon.set_local_events(POINT_TOOL_ID, c, mon.events.CALL | mon.events.PY_START)
    S.points = True
    return len(codes)
