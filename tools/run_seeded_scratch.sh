#!/bin/bash
# usage: tools/run_seeded_scratch.sh <seeded-id> "<checks>" [seed]
# Applies seeded/<id>/patch.diff to a scratch COPY of /repo (not to /repo itself) and runs the checks against the copy.
cd "$(dirname "$0")/.." || exit 2
id="$1"; checks="$2"; seed="${3:-0}"
scratch=$(mktemp -d /dev/shm/spv-$$-seeded-XXXXXX) || exit 2
trap 'rm -rf -- "$scratch"; git checkout -q -- evidence 2>/dev/null' EXIT
rsync -a --exclude=.git --exclude='*.so' --exclude=__pycache__ /repo/ "$scratch/" || exit 2
( cd "$scratch" && patch -p1 -s -i "$OLDPWD/seeded/$id/patch.diff" ) || { echo "$id: patch does not apply to the current /repo"; exit 3; }
mkdir -p /tmp/seeded-replays/$id
for c in $checks; do
  echo "== $id check $c seed $seed"
  SIMPLAN_REPO="$scratch" VERIF_SEED=$seed ./check $c 2>&1 | grep -v "^KNOWN-FINDING" | grep "VIOLATION\|HARNESS\|OK prop\|oracle=\|quick:" | cut -c1-300 | head -8
  mv replays/* /tmp/seeded-replays/$id/ 2>/dev/null
done
