"""C11 - scheduling is total: it terminates and reports, never crashes or hangs.

Fault: the `bytes` kind on the stored project text (torn / bit-rotted file), plus the
grammatical-but-infeasible half of the pool (seeded workload), every case executed in a
forked interpreter under the deterministic step clock.
Oracles: [bounded] [no-internal-error] [rejection] [disposition]  (DESIGN.md 5.4)
"""

from __future__ import annotations

import json
import os
import time

from simplan import gen, harness, libworld, snapshot
from simplan.pool import Pool
from simplan.tape import digest, rng_for

PROP = "C11"
# what counts as "rejected with a parse error": the grammar's own errors and deliberate value errors
PARSE_ERROR_TYPES = {"UnexpectedToken", "UnexpectedCharacters", "UnexpectedEOF", "UnexpectedInput", "ValueError", "TjException", "TjRuntimeError", "GrammarError", "LexError", "ParseError"}
CALIB = os.path.join(harness.VERIF, "calib", "step_budget.json")
_FIX = None


def _budget() -> dict:
    with open(CALIB, encoding="utf-8") as f:
        return json.load(f)


def _fixtures():
    global _FIX
    if _FIX is None:
        _FIX = gen.fixtures(max_bytes=4000)
    return _FIX


def gen_case(seed: int, idx: int) -> dict:
    rng = rng_for(PROP, seed, idx)
    r = rng.random()
    if r < 0.45:
        if rng.random() < 0.15 and _fixtures():
            base = dict(_fixtures()[rng.randrange(len(_fixtures()))])
        else:
            base = gen.gen_project(rng, reports="mixed")
        mrng = rng_for(PROP, seed, f"macro-{idx}")  # (own stream: the cases generated before this knob existed are unchanged)
        if mrng.random() < 0.25 and base.get("kind") == "gen":
            base["text"] = gen.add_macros(mrng, base["text"])
        text, edits = gen.corrupt(rng, base["text"])
        if mrng.random() < 0.3 and "macro " in base["text"]:
            # a lost closing bracket of a macro body (its own line or the character)
            import re as _re

            cand = [m.start() for m in _re.finditer(r"\]", text)]
            if cand:
                k = cand[mrng.randrange(len(cand))]
                text = text[:k] + ("}" if mrng.random() < 0.3 else "") + text[k + 1 :]
                edits.append(["bracket", k])
        return {"text": text, "cls": "corrupt", "edits": edits, "base_kind": base.get("kind")}
    if r < 0.75:
        d = gen.gen_infeasible(rng)
        return {"text": d["text"], "cls": "infeasible", "tags": d["tags"]}
    if r < 0.88:
        d = gen.gen_project(rng, reports="mixed")
        mrng = rng_for(PROP, seed, f"macro-{idx}")
        if mrng.random() < 0.2:
            d["text"] = gen.add_macros(mrng, d["text"])
            d["tags"] = list(d["tags"]) + ["macros"]
        return {"text": d["text"], "cls": "valid", "tags": d["tags"]}
    d = gen.gen_infeasible(rng)
    text, edits = gen.corrupt(rng, d["text"])
    return {"text": text, "cls": "corrupt-infeasible", "edits": edits, "tags": d["tags"]}


def _v(oracle, sig, detail):
    return {"oracle": oracle, "sig": f"{oracle}|{sig}", "detail": detail}


def project_without_end(text: str) -> bool:
    """The project header gives a start date but no '+<duration>' (grammatical: the duration is optional)."""
    import re

    m = re.search(r"project\s+\S+\s+(\"[^\"]*\"\s+)?\d{4}-\d{2}-\d{2}(-\d{2}:\d{2})?\s*(\S)", text)
    return bool(m) and m.group(3) != "+"


_MACRO_DEF = None


_MACRO_NAMES: set = set()


def strip_macro_definitions(text: str) -> tuple[str, bool]:
    """The documented macro syntax, `macro name [ body ]` with nested brackets, applied as the first pass over the raw
    text: terminated definitions are removed, an unterminated one stays where it is.  Returns (remainder, judgeable);
    judgeable is False if some body could change the lexical structure of the text it is expanded into (odd number
    of quotes, unbalanced braces, comment or rich-text openers)."""
    global _MACRO_DEF
    import re

    if _MACRO_DEF is None:
        _MACRO_DEF = re.compile(r"macro\s+(\w+)\s*\[")
    out = []
    i, n = 0, len(text)
    judgeable = True
    _MACRO_NAMES.clear()
    while True:
        m = _MACRO_DEF.search(text, i)
        if not m:
            out.append(text[i:])
            break
        j = m.end()
        c = 1
        while j < n and c > 0:
            if text[j] == "[":
                c += 1
            elif text[j] == "]":
                c -= 1
            j += 1
        if c == 0:
            body = text[m.end() : j - 1]
            if body.count('"') % 2 or body.count("'") % 2 or body.count("{") != body.count("}") or "/*" in body or "//" in body or "-8<-" in body or "->8-" in body:
                judgeable = False
            out.append(text[i : m.start()])
            _MACRO_NAMES.add(m.group(1))
            i = j
        else:
            out.append(text[i : m.start() + 1])
            i = m.start() + 1
    return "".join(out), judgeable


def lexical_verdict(text: str) -> str | None:
    """Why a text cannot be a project, judged on its lexical structure alone by a scanner independent of the code
    under test - or None.  Every block of the grammar is brace-delimited, brackets occur only as macro-body
    delimiters, strings / block comments / rich-text blocks must be closed.  A text cut inside any of these
    constructs (torn write), or one that lost a delimiter, is not a project."""
    rest, judgeable = strip_macro_definitions(text)
    if not judgeable:
        return None
    # macro references are expanded textually before anything is lexed - inside comments and strings too, and
    # across line ends (a `${` at the end of a comment line takes the text up to the next balanced `}` with it):
    # take them out first, brace-counted exactly as the expander does; an unterminated one stays and is not judged
    out = []
    i, n = 0, len(rest)
    while i < n:
        if rest.startswith("${", i):
            j = i + 2
            c = 1
            while j < n and c > 0:
                if rest[j] == "{":
                    c += 1
                elif rest[j] == "}":
                    c -= 1
                j += 1
            if c:
                return None
            call = rest[i + 2 : j - 1].strip()
            name = call.split()[0] if call.split() else ""
            if not call:
                pass  # an empty call expands to nothing
            elif name in _MACRO_NAMES or name in ("projectstart", "projectend", "now", "today"):
                out.append(" M ")
            else:
                out.append("${" + call + "}")  # an unknown macro stays where it is (inner white space stripped)
            i = j
            continue
        out.append(rest[i])
        i += 1
    rest = "".join(out)
    depth = 0
    i, n = 0, len(rest)
    while i < n:
        ch = rest[i]
        if ch in "\"'":
            j = rest.find(ch, i + 1)
            if j < 0:
                return "unterminated-string"
            i = j + 1
            continue
        if ch == "#" or rest.startswith("//", i):
            j = rest.find("\n", i)
            i = n if j < 0 else j + 1
            continue
        if rest.startswith("/*", i):
            j = rest.find("*/", i + 2)
            if j < 0:
                return "unterminated-comment"
            i = j + 2
            continue
        if rest.startswith("-8<-", i):
            j = rest.find("->8-", i + 4)
            if j < 0:
                return "unterminated-rich-text"
            i = j + 4
            continue
        if rest.startswith("${", i) or rest.startswith("%{", i):
            # a macro / query reference: opaque up to its closing brace (nested braces counted, as the expander does)
            j = i + 2
            c = 1
            while j < n and c > 0:
                if rest[j] == "{":
                    c += 1
                elif rest[j] == "}":
                    c -= 1
                j += 1
            if c:
                return None  # unterminated reference: what follows is not judged
            i = j
            continue
        if ch == "{":
            depth += 1
        elif ch == "}":
            depth -= 1
            if depth < 0:
                return "unbalanced-braces"
        elif ch in "[]":
            return "stray-bracket"
        i += 1
    return "unbalanced-braces" if depth else None


def unbalanced_braces(text: str) -> bool:
    return lexical_verdict(text) == "unbalanced-braces"


def oracles(case: dict, r: dict, B: dict) -> list[dict]:
    V = []
    if r.get("wall_timeout"):
        return [_v("bounded", "wall", f"no result within the wall watchdog ({B['wall_s']} s): hang outside the step clock's reach")]
    if r.get("parse") == "budget":
        V.append(_v("bounded", "parse-cap", f"parse() exceeded the absolute cap of {B['parse_cap']} steps for a text of {r['len']} chars"))
        return V
    if r.get("parse") == "escaped":
        V.append(_v("rejection", f"{r['parse_exc']}|{r['parse_frame']}", f"parse() left through {r['parse_exc']} (not an Exception a caller can catch) at {r['parse_frame']}; stderr: {r.get('stderr_tail', '')[-160:]!r}"))
        return V
    if r.get("parse") == "rejected":
        kind = r.get("parse_exc", "").split(":")[-1]
        if kind not in PARSE_ERROR_TYPES:
            where = "project-without-end" if kind == "TypeError" and project_without_end(case.get("text", "")) else r["parse_frame"]
            V.append(_v("rejection", f"internal|{r['parse_exc']}|{where}", f"parse() rejected the text with {r['parse_exc']} ({r.get('parse_msg', '')}) at {r['parse_frame']}: an internal error, not a parse error"))
        # rejected by the grammar / transformer: cost must be proportional to the text
        # macro expansion may legitimately make 100 passes over a text that grows to 100x its size
        # (about 5 steps per character and pass): texts with macro definitions get the wider constant
        c1 = B["parse_c1_rejected_macro"] if "macro" in case.get("text", "") else B["parse_c1_rejected"]
        lim = B["parse_c0"] + c1 * max(1, r["len"])
        if r.get("parse_exc", "").startswith("Unexpected") and r["steps_parse"] > lim:
            V.append(_v("bounded", "parse-rejected", f"rejecting a {r['len']}-char text took {r['steps_parse']} steps > {lim}"))
        return V
    # accepted
    lv = lexical_verdict(case.get("text", ""))
    if lv:
        V.append(_v("rejection", f"accepted-with-{lv}", f"parse() accepted a text that is lexically not a project ({lv}): every block of the grammar is brace-delimited, brackets only delimit macro bodies, strings / comments / rich-text blocks must be closed; e.g. a file truncated inside such a construct, or one that lost a delimiter - part of the text was silently dropped"))
    m = r["m_before"]
    # building the model deep-copies inherited attribute values (limits, scenario overrides) whose object graph
    # reaches the whole project: cost ~ text size x number of properties x scenarios.  In practice the absolute
    # parse cap is the binding bound for all but tiny projects; the formula documents what "proportional" means here.
    Mp = r["len"] * (1 + (m["R"] + m["T"]) * m.get("S", 1))
    lim = min(B["parse_cap"], B["parse_c0"] + B["parse_c1"] * Mp)
    if r["steps_parse"] > lim:
        V.append(_v("bounded", "parse", f"parse of an accepted text took {r['steps_parse']} steps > {lim} (len={r['len']}, {m})"))
    s = r.get("sched")
    if s == "budget":
        if r["budget"] >= B["sched_c0"] + B["sched_c1"] * r["M"]:
            V.append(_v("bounded", "sched", f"schedule() exceeded B(M)={r['budget']} steps, M={r['M']} ({m})"))
        # else: capped below B(M): inconclusive-too-big, counted, not a violation
    elif s in ("raised", "escaped"):
        where = r["sched_frame"]
        if r["sched_exc"] == "AttributeError" and "'dict' object has no attribute" in r.get("sched_msg", ""):
            where = "allocation-dict-as-resource"
        if r["sched_exc"] == "TypeError" and "NoneType" in r.get("sched_msg", "") and project_without_end(case.get("text", "")):
            where = "project-without-end"
        V.append(_v("no-internal-error", f"{r['sched_exc']}|{where}", f"schedule() of an accepted project raised {r['sched_exc']}: {r.get('sched_msg', '')} at {r['sched_frame']}"))
    elif s == "returned":
        d = r["disposition"]
        for b in d["bad"][:1]:
            V.append(_v("disposition", b[2], f"task {b[0]} (scenario {b[1]}): {b[2]} start={b[3]} end={b[4]}; horizon after extension: {r.get('m_after')}"))
        warned = r.get("warnings", 0) > 0 or "warn" in r.get("stderr_tail", "").lower()
        if d["unscheduled"] and not warned:
            V.append(_v("disposition", "unscheduled-without-warning", f"{d['unscheduled']} leaf task(s) unscheduled but no warning was emitted"))
    return V


def _outcome(r: dict) -> str:
    if r.get("wall_timeout"):
        return "wall"
    if r.get("parse") != "accepted":
        return f"{r.get('parse')}:{r.get('parse_exc')}"
    if r.get("sched") != "returned":
        return f"accepted:{r.get('sched')}:{r.get('sched_exc')}"
    d = r["disposition"]
    return "accepted:all-scheduled" if d["unscheduled"] == 0 else "accepted:some-unscheduled"


def _run_text(text: str, B: dict) -> dict:
    return libworld.fork_call(libworld.c11_case, (text, B["parse_cap"], {"c0": B["sched_c0"], "c1": B["sched_c1"], "cap": B["sched_cap"]}), B["wall_s"])


def run_case(args: dict) -> dict:
    B = _budget()
    case = gen_case(args["seed"], args["idx"])
    r = _run_text(case["text"], B)
    if "harness" in r:
        return {"idx": args["idx"], "harness": r["harness"], "viol": []}
    V = oracles(case, r, B)
    out = {
        "idx": args["idx"],
        "cls": case["cls"],
        "outcome": _outcome(r),
        "viol": V,
        "steps": (r.get("steps_parse") or 0) + (r.get("steps_sched") or 0),
        "too_big": r.get("sched") == "budget" and not V,
        "edit_sig": [e[0] for e in case.get("edits", [])] or case.get("tags", [])[-1:],
        "ratio_sched": round(r["steps_sched"] / max(1, r["M"]), 2) if r.get("sched") == "returned" else None,
        "warnings": r.get("warnings"),
        "log_digest": digest([_outcome(r), r.get("steps_parse"), r.get("steps_sched"), r.get("disposition")]),
    }
    if V or args.get("sample"):
        out["case"] = case
        out["result"] = r
    return out


def replay_text(args: dict) -> dict:
    B = _budget()
    r = _run_text(args["text"], B)
    if "harness" in r:
        return {"harness": r["harness"], "viol": []}
    return {"viol": oracles({"text": args["text"]}, r, B), "result": r, "log_digest": digest([_outcome(r), r.get("steps_parse"), r.get("steps_sched"), r.get("disposition")])}


def _minimise_text(pool: Pool, text: str, sig: str, budget_s: float) -> str:
    """Line-based ddmin while the same signature keeps firing."""
    t_end = time.time() + budget_s

    def fails(t):
        res = pool.run([{"cfg": 0, "mod": "checks.c11", "fn": "replay_text", "args": {"text": t}}])[0]
        return bool(res and res.get("ok") and sig in {v["sig"] for v in res["res"]["viol"]})

    lines = text.split("\n")
    n = 2
    while len(lines) >= 2 and time.time() < t_end:
        chunk = max(1, len(lines) // n)
        reduced = False
        for i in range(0, len(lines), chunk):
            if time.time() > t_end:
                break
            cand = lines[:i] + lines[i + chunk :]
            if cand and fails("\n".join(cand)):
                lines = cand
                n = max(n - 1, 2)
                reduced = True
                break
        if not reduced:
            if chunk == 1:
                break
            n = min(len(lines), n * 2)
    return "\n".join(lines)


CONFIGS = [{"hashseed": 0, "block": []}, {"hashseed": 1, "block": ["scoreboard_cy", "time_utils_cy", "working_hours_cy"]}]
COUNTS = {"quick": {"count": 3400, "wall": 110}, "thorough": {"count": 200000, "wall": 1500}}
ASSUMPTIONS = [
    "the step clock counts Python function entries and loop back-edges; a loop inside C code is caught only by the wall watchdog",
    "size measure M = len(text) + H*(R+T+1)*S + T^2 (H slots of the horizon after automatic extension); budget constants are committed in calib/step_budget.json at 10x the worst fault-free ratio and never refitted at check time",
    "cases whose B(M) exceeds the per-case cap are cut at the cap and counted as inconclusive-too-big, never as passed-with-bound and never as violations",
    "Lark grammar compilation (ProjectFileParser.__init__) is outside the measured region",
    "infeasible projects are seeded workload, not fault injection; the bytes fault is the injected fault",
]


def main() -> int:
    import argparse

    ap = argparse.ArgumentParser()
    ap.add_argument("--tier", default=os.environ.get("VERIF_TIER", "quick"))
    ap.add_argument("--replay")
    ap.add_argument("--count", type=int)
    ap.add_argument("--workers", type=int, default=min(16, os.cpu_count() or 4))
    a = ap.parse_args()
    tier = a.tier if a.tier in ("quick", "thorough") else "quick"
    seed = harness.env_seed()
    t0 = time.time()
    try:
        snap = snapshot.make_snapshot(build=True)
    except snapshot.SnapshotError as e:
        print(f"HARNESS-ERROR property={PROP} snapshot/build failed: {e}")
        return 2
    pool = Pool(snap["path"], CONFIGS, total_workers=a.workers)
    if a.replay:
        with open(a.replay, encoding="utf-8") as f:
            rp = json.load(f)
        res = pool.run([{"cfg": rp.get("cfg", 0), "mod": "checks.c11", "fn": "replay_text", "args": {"text": rp["text"]}}])[0]
        if not res or not res.get("ok"):
            print(f"HARNESS-ERROR property={PROP} replay failed: {res}")
            return 2
        sigs = [v["sig"] for v in res["res"]["viol"]]
        print(f"replay: sigs={sigs} expected={rp['sig']} same_log={res['res']['log_digest'] == rp.get('log_digest')}")
        print(json.dumps(res["res"]["result"], indent=1)[:1500])
        if rp["sig"] in sigs:
            print(f"VIOLATION property={PROP} replay={a.replay}")
            return 1
        print(f"OK property={PROP} (replay no longer violates)")
        return 0
    count = a.count or COUNTS[tier]["count"]
    wall = harness.env_budget(COUNTS[tier]["wall"])
    jobs = [{"cfg": i % len(CONFIGS), "mod": "checks.c11", "fn": "run_case", "args": {"seed": seed, "idx": i, "sample": i < 3}} for i in range(count)]
    ndet = min(24, count)
    det = [{"cfg": i % len(CONFIGS), "mod": "checks.c11", "fn": "run_case", "args": {"seed": seed, "idx": i}} for i in range(ndet)]
    results = pool.run(jobs + det, wall_cap=wall)
    herr: list[str] = []
    done = []
    for j, res in enumerate(results[:count]):
        if res is None:
            continue
        if not res.get("ok"):
            herr.append(res.get("harness") or res.get("error", "") + res.get("tb", "")[-600:])
        elif res["res"].get("harness"):
            herr.append(f"case {j}: {res['res']['harness']}")
        else:
            done.append(res["res"])
    det_checked = 0
    for j, res in enumerate(results[count:]):
        m = results[j]
        if res and res.get("ok") and m and m.get("ok") and "log_digest" in res["res"] and "log_digest" in m["res"]:
            det_checked += 1
            if res["res"]["log_digest"] != m["res"]["log_digest"]:
                herr.append(f"nondeterminism: case {j} gave two different outcomes/step counts")
    all_v = [(s, v) for s in done for v in s["viol"]]
    new, old, known_lines = harness.split_known(PROP, [v for _, v in all_v])
    first: dict[str, dict] = {}
    for s, v in all_v:
        if v in new and v["sig"] not in first:
            first[v["sig"]] = (s, v)
    reported = []
    for sig, (s, v) in list(first.items())[:5]:
        text = s["case"]["text"]
        cfg = s["idx"] % len(CONFIGS)
        chk = pool.run([{"cfg": cfg, "mod": "checks.c11", "fn": "replay_text", "args": {"text": text}}])[0]
        if not (chk and chk.get("ok") and sig in {x["sig"] for x in chk["res"]["viol"]}):
            herr.append(f"violation {sig} of case {s['idx']} did not reproduce on replay")
            continue
        small = _minimise_text(pool, text, sig, 20.0 if tier == "quick" else 120.0)
        fin = pool.run([{"cfg": cfg, "mod": "checks.c11", "fn": "replay_text", "args": {"text": small}}])[0]
        if not (fin and fin.get("ok") and sig in {x["sig"] for x in fin["res"]["viol"]}):
            small, fin = text, chk
        v2 = next(x for x in fin["res"]["viol"] if x["sig"] == sig)
        payload = {"property": PROP, "sig": sig, "oracle": v2["oracle"], "detail": v2["detail"], "seed": seed, "case_index": s["idx"], "cfg": cfg, "worker_config": CONFIGS[cfg], "text": small, "original_text": text, "case": {k: s["case"].get(k) for k in ("cls", "edits", "tags")}, "result": fin["res"]["result"], "log_digest": fin["res"]["log_digest"], "tree_digest": snap["digest"]}
        reported.append((v2, harness.write_replay(PROP, seed, payload)))
    # ---- evidence
    classes: dict[str, int] = {}
    distinct = set()
    edits: dict[str, int] = {}
    ratios = [s["ratio_sched"] for s in done if s.get("ratio_sched")]
    for s in done:
        classes[s["outcome"]] = classes.get(s["outcome"], 0) + 1
        distinct.add((s["outcome"], tuple(s.get("edit_sig") or [])))
        if s["cls"].startswith("corrupt"):
            for e in s.get("edit_sig") or []:
                edits[str(e)] = edits.get(str(e), 0) + 1
    wall_s = time.time() - t0
    B = _budget()
    samples = [{"case": s["case"]["cls"], "text_head": s["case"]["text"][:400], "outcome": s["outcome"], "steps": s["steps"]} for s in done if "case" in s and not s["viol"]][:3]
    cov = {
        "evaluations": len(done),
        "distinct_nontrivial": len(distinct),
        "rule": "case = seeded project text: corrupted variant of a valid text (bytes fault, 1-3 edits), infeasible-by-construction project, corrupted infeasible project, or valid control; executed as parse(schedule=False) + schedule() in a forked interpreter under the step clock; distinct = distinct (outcome class incl. exception type, edit signature) pairs, all of which are non-trivial (a fault or an infeasibility is present) except the valid controls, which are excluded from the count",
        "samples": samples or [{"note": "no non-violating sample captured"}],
        "cases_requested": count,
        "outcome_classes": dict(sorted(classes.items())),
        "bytes_faults_injected_by_edit_kind": dict(sorted(edits.items())),
        "case_classes": {c: sum(1 for s in done if s["cls"] == c) for c in ("corrupt", "infeasible", "valid", "corrupt-infeasible")},
        "steps_executed": sum(s["steps"] for s in done),
        "max_sched_steps_per_M": max(ratios) if ratios else None,
        "budget_constants": B,
        "inconclusive_too_big": sum(1 for s in done if s.get("too_big")),
        "runs_per_hour": int(len(done) / max(wall_s, 1e-6) * 3600),
        "determinism_reruns_checked": det_checked,
        "worker_configs": CONFIGS,
        "known_findings_hit": len(old),
        "tree_digest": snap["digest"],
        "harness_errors": len(herr),
    }
    cov["distinct_nontrivial"] = len({d for d in distinct if d[0] != "accepted:all-scheduled" or d[1]})
    harness.write_evidence(PROP, tier, seed, cov, ASSUMPTIONS, wall_s, len(reported))
    print(f"{PROP} {tier}: {len(done)}/{count} cases, {cov['steps_executed']} steps, outcome classes {len(classes)}, {wall_s:.0f}s")
    return harness.finish(PROP, reported, known_lines, herr)
