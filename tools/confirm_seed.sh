#!/bin/bash
# usage: tools/confirm_seed.sh <id>   - confirms a sub-agent's seeded change in its worktree /tmp/wt-<id>:
# worktree diff == _seeded/patch.diff, test suite passes with the change, demo exits 1 with / 0 without the change.
id="$1"; wt=/tmp/wt-$id
cd "$wt" || exit 2
git diff > /tmp/confirm-$id.diff
if cmp -s /tmp/confirm-$id.diff _seeded/patch.diff; then echo "diff: identical to patch.diff ($(git diff --stat | tail -1))"; else echo "diff: DIFFERS from patch.diff"; fi
rm -f /tmp/confirm-$id.diff
echo "pytest with change: $(/venv/bin/python -m pytest -q -p no:cacheprovider -x 2>&1 | tail -1)"
PYTHONPATH=$wt timeout 900 /venv/bin/python _seeded/demo.py > /tmp/confirm-$id.out 2>&1; echo "demo with change: exit $?"
git apply -R _seeded/patch.diff || exit 3
PYTHONPATH=$wt timeout 900 /venv/bin/python _seeded/demo.py > /tmp/confirm-$id.out0 2>&1; echo "demo without change: exit $?"
git apply _seeded/patch.diff || exit 3
rm -f /tmp/confirm-$id.out /tmp/confirm-$id.out0
git status --short | grep -v "_seeded" | head
