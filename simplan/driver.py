"""Front end shared by the scenario-based checks: batch run, determinism probe,
confirmation + minimisation + replay file for each violation, evidence, exit protocol."""

from __future__ import annotations

import argparse
import json
import os
import sys
import time

from . import harness, snapshot
from .pool import Pool
from .tape import digest

N_DET = 12  # scenarios re-executed in every run to prove replay determinism


def _job(mod, fn, cfg, args):
    return {"cfg": cfg, "mod": mod.__name__, "fn": fn, "args": args}


def confirm_and_minimise(pool: Pool, mod, cfg: int, summary: dict, target_sig: str, budget_s: float) -> dict:
    """Replay in a fresh worker, then shrink spec and tape while the same signature keeps firing."""
    spec, inputs, tape = summary["spec"], summary["inputs"], summary["tape"]

    def run(spec_, inputs_, tape_):
        res = pool.run([_job(mod, "replay_scenario", cfg, {"spec": spec_, "inputs": inputs_, "tape": tape_})])[0]
        if not res or not res.get("ok"):
            return None
        return res["res"]

    first = run(spec, inputs, tape)
    out = {"confirmed": False, "deterministic": False}
    if first is None:
        out["error"] = "replay job failed"
        return out
    out["deterministic"] = first["log_digest"] == summary["log_digest"]
    sigs = {v["sig"] for v in first["viol"]}
    out["confirmed"] = target_sig in sigs
    if not out["confirmed"]:
        return out
    t_end = time.time() + budget_s
    best = (spec, inputs, tape, first)
    # spec-level shrinking
    if hasattr(mod, "shrink_candidates"):
        progress = True
        while progress and time.time() < t_end:
            progress = False
            for s2, i2 in mod.shrink_candidates(best[0], best[1]):
                if time.time() > t_end:
                    break
                r2 = run(s2, i2, best[2])
                if r2 is not None and target_sig in {v["sig"] for v in r2["viol"]}:
                    best = (s2, i2, best[2], r2)
                    progress = True
                    break
    # tape shrinking
    from .tape import minimise_tape

    def still(t):
        r2 = run(best[0], best[1], t)
        return r2 is not None and target_sig in {v["sig"] for v in r2["viol"]}

    left = max(5.0, t_end - time.time())
    mt = minimise_tape(best[2], still, budget_s=left)
    final = run(best[0], best[1], mt)
    if final is None or target_sig not in {v["sig"] for v in final["viol"]}:
        mt, final = best[2], best[3]
    again = run(best[0], best[1], mt)
    out["replays_exactly"] = again is not None and again["log_digest"] == final["log_digest"]
    out.update(spec=best[0], inputs=best[1], tape=mt, result=final)
    return out


def run_replay_file(mod, path: str, configs: list[dict]) -> int:
    with open(path, encoding="utf-8") as f:
        rp = json.load(f)
    snap = snapshot.make_snapshot(build=True)
    pool = Pool(snap["path"], configs, total_workers=1)
    res = pool.run([_job(mod, "replay_scenario", rp.get("cfg", 0), {"spec": rp["spec"], "inputs": rp["inputs"], "tape": rp["tape"]})])[0]
    if not res or not res.get("ok"):
        print(f"HARNESS-ERROR property={mod.PROP} replay failed: {res}")
        return 2
    r = res["res"]
    sigs = [v["sig"] for v in r["viol"]]
    same_log = r["log_digest"] == rp.get("log_digest")
    print(f"replay: sigs={sigs} expected={rp['sig']} same_event_log={same_log}")
    for e in r["events_log"][-60:]:
        print("  ", e)
    if rp["sig"] in sigs:
        print(f"VIOLATION property={mod.PROP} replay={path}")
        return 1
    print(f"OK property={mod.PROP} (replay no longer violates)")
    return 0


def drive(mod, configs: list[dict], counts: dict, rule: str, assumptions: list[str], extra_cov=None) -> int:
    ap = argparse.ArgumentParser()
    ap.add_argument("--tier", default=os.environ.get("VERIF_TIER", "quick"))
    ap.add_argument("--replay")
    ap.add_argument("--count", type=int)
    ap.add_argument("--workers", type=int, default=min(16, os.cpu_count() or 4))
    a = ap.parse_args()
    if a.replay:
        return run_replay_file(mod, a.replay, configs)
    tier = a.tier if a.tier in ("quick", "thorough") else "quick"
    seed = harness.env_seed()
    prop = mod.PROP
    t0 = time.time()
    try:
        snap = snapshot.make_snapshot(build=True)
    except snapshot.SnapshotError as e:
        print(f"HARNESS-ERROR property={prop} snapshot/build failed: {e}")
        return 2
    count = a.count or counts[tier]["count"]
    wall = harness.env_budget(counts[tier]["wall"])
    pool = Pool(snap["path"], configs, total_workers=a.workers)
    ncfg = len(configs)
    jobs = []
    for idx in range(count):
        jobs.append(_job(mod, "run_scenario", idx % ncfg, {"seed": seed, "idx": idx, "tier": tier, "sample": idx < 3}))
    det_jobs = [_job(mod, "run_scenario", idx % ncfg, {"seed": seed, "idx": idx, "tier": tier}) for idx in range(min(N_DET, count))]
    results = pool.run(jobs + det_jobs, wall_cap=wall)
    main_res, det_res = results[:count], results[count:]
    harness_errors: list[str] = []
    done = []
    for j, res in enumerate(main_res):
        if res is None:
            continue
        if not res.get("ok"):
            harness_errors.append(res.get("harness") or (res.get("error", "") + " " + res.get("tb", "")[-800:]))
            continue
        if res["res"].get("harness"):
            harness_errors.append(f"idx {j}: {res['res']['harness']}")
            continue
        done.append(res["res"])
    det_checked = 0
    for j, res in enumerate(det_res):
        if res and res.get("ok") and main_res[j] and main_res[j].get("ok"):
            det_checked += 1
            if res["res"]["log_digest"] != main_res[j]["res"]["log_digest"]:
                harness_errors.append(f"nondeterminism: scenario {j} produced two different event logs")
    # ---- violations
    all_v = []
    for s in done:
        for v in s["viol"]:
            all_v.append((s, v))
    new, old, known_lines = harness.split_known(prop, [v for _, v in all_v])
    new_sigs: dict[str, dict] = {}
    for s, v in all_v:
        if v in new and v["sig"] not in new_sigs:
            new_sigs[v["sig"]] = s
    reported = []
    budget = 25.0 if tier == "quick" else 180.0
    for sig, s in list(new_sigs.items())[:5]:
        cfg = s["idx"] % ncfg
        m = confirm_and_minimise(pool, mod, cfg, s, sig, budget)
        if not m.get("confirmed"):
            harness_errors.append(f"violation {sig} of scenario {s['idx']} did not reproduce on replay (deterministic={m.get('deterministic')})")
            continue
        v = next(x for x in m["result"]["viol"] if x["sig"] == sig)
        payload = {
            "property": prop,
            "sig": sig,
            "oracle": v["oracle"],
            "detail": v["detail"],
            "seed": seed,
            "scenario_index": s["idx"],
            "tier": tier,
            "cfg": cfg,
            "worker_config": configs[cfg],
            "spec": m["spec"],
            "inputs": m["inputs"],
            "tape": m["tape"],
            "log_digest": m["result"]["log_digest"],
            "events": m["result"]["events_log"],
            "stderr": m["result"].get("stderr"),
            "replays_exactly": m.get("replays_exactly"),
            "tree_digest": snap["digest"],
            "original_tape_len": len(s["tape"]),
        }
        path = harness.write_replay(prop, seed, payload)
        reported.append((v, path))
    # ---- evidence
    distinct = set()
    fired: dict[str, int] = {}
    probes: dict[str, int] = {}
    ilv = set()
    tot_events = 0
    span = 0.0
    enabled: dict[str, int] = {}
    for s in done:
        ilv.add(s["interleaving"])
        tot_events += s["events"]
        span = max(span, s.get("clock_span", 0.0))
        if s["nontrivial"]:
            distinct.add((s["interleaving"], digest(s["fault_sig"])))
        for k, n in s["faults_fired"].items():
            fired[k] = fired.get(k, 0) + n
        for k in s.get("kinds_enabled", []):
            enabled[k] = enabled.get(k, 0) + 1
        for k, n in s.get("probes", {}).items():
            probes[k] = probes.get(k, 0) + n
    for k in getattr(mod, "EXPECTED_PROBES", []):
        probes.setdefault(k, 0)
    wall_s = time.time() - t0
    samples = [s["sample"] for s in done if "sample" in s][:3]
    if not samples and done:
        samples = [{"idx": done[0]["idx"], "exits": done[0]["exits"]}]
    cov = {
        "evaluations": len(done),
        "distinct_nontrivial": len(distinct),
        "rule": rule,
        "samples": samples,
        "scenarios_requested": count,
        "seam_events_executed": tot_events,
        "simulated_processes": sum(s.get("n", 1) for s in done),
        "distinct_interleavings": len(ilv),
        "context_switches": sum(s.get("switches", 0) for s in done),
        "switches_while_two_hold_temp_state": sum(s.get("overlap_switches", 0) for s in done),
        "listing_permutations_applied": sum(s.get("perms", 0) for s in done),
        "async_exception_point_events": sum(s.get("point_events", 0) for s in done),
        "faults_fired_by_kind": dict(sorted(fired.items())),
        "fault_kinds_enabled_in_scenarios": dict(sorted(enabled.items())),
        "simulated_clock_span_s": span,
        "reach_probes": dict(sorted(probes.items())),
        "runs_per_hour": int(len(done) / max(wall_s, 1e-6) * 3600),
        "determinism_reruns_checked": det_checked,
        "worker_configs": configs,
        "known_findings_hit": len(old),
        "tree_digest": snap["digest"],
        "harness_errors": len(harness_errors),
    }
    if extra_cov:
        cov.update(extra_cov(done))
    zero = [k for k, n in cov["reach_probes"].items() if n == 0]
    if zero:
        cov["probes_stuck_at_zero"] = zero
        print(f"warning: reach probes never hit in this run: {zero}")
    harness.write_evidence(prop, tier, seed, cov, assumptions, wall_s, len(reported))
    print(f"{prop} {tier}: {len(done)}/{count} scenarios, {tot_events} seam events, {len(distinct)} distinct non-trivial, {sum(fired.values())} faults fired, {wall_s:.0f}s")
    return harness.finish(prop, reported, known_lines, harness_errors)
