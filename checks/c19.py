"""C19 - the `plan` CLI honours its output contract.

One simulated `plan report` process (or the same bytes through the three input
channels) in a faulty world.  Oracles: [content] [channel] [stdout-pure] [exit] [clock]
(DESIGN.md 5.2).  The reference for [content] is the library API evaluated on the
original text in a fresh fault-free interpreter of the same snapshot.
"""

from __future__ import annotations

import csv
import hashlib
import io
import json
import random

from simplan import cliworld, gen, libexpect, procworld
from simplan.tape import Tape, rng_for

PROP = "C19"
FAULT_KINDS = ["open-r", "read", "create", "write", "list", "remove", "stat", "epipe", "stdin", "sigint"]
TZ_KNOB = [None, None, None, "UTC", "Asia/Tokyo", "America/New_York", "Pacific/Kiritimati"]


SWEEP_EVENTS = 64  # event indices swept per base scenario (a run has 40-60 seam events)
SWEEP_ORDS = 5  # fault ordinals tried per event (the longest applicable list has 4 errnos + sigint)


def gen_spec(seed: int, idx: int, tier: str):
    if idx % 4 == 3:
        return gen_sweep_spec(seed, idx // 4, idx)
    rng = rng_for(PROP, seed, idx)
    dst = rng.random() < 0.08
    if dst:
        inp = gen.gen_dst_project(rng)
        inp.update(name="p0")
    else:
        inp = cliworld.make_input(rng, "p0", p_bad=0.3)
    if inp.get("text") and rng.random() < 0.06:
        inp["text"] = inp["text"].replace("\n", "\r\n")
        inp["tags"] = list(inp.get("tags", [])) + ["crlf"]
    if not dst:
        cliworld.byte_variants(rng_for(PROP, seed, f"bytes-{idx}"), inp)
    spec = {"files": {}, "decoys": {}, "procs": [], "prop": PROP, "idx": idx}
    cliworld.place_inputs(rng, [inp], spec)
    cliworld.add_decoys(rng, spec, 0.4, ["p0"])
    mode = "channels" if (rng.random() < 0.2 and inp.get("text") is not None and inp["kind"] not in ("missing", "dir")) else "single"
    spec["mode"] = mode
    if mode == "single":
        spec["procs"].append(cliworld.make_proc(rng, inp, 0))
    else:
        base = cliworld.make_proc(rng, inp, 0, allow_stdin=False)
        flags = [a for a in base["argv"][1:] if a.startswith("--") or a == "report"]
        spec["procs"].append(base)
        spec["procs"].append({"input": "p0", "fmt": base["fmt"], "stdin_text": inp["text"], "channel": "stdin-dash", "argv": ["plan", *flags, "-"]})
        spec["procs"].append({"input": "p0", "fmt": base["fmt"], "stdin_text": inp["text"], "channel": "stdin-omitted", "argv": ["plan", *flags]})
    spec["policy"] = "seq"
    spec["listing"] = "perm" if rng.random() < 0.6 else "sorted"
    spec["collide"] = rng.random() < 0.2
    spec["name_salt"] = rng.randrange(4)
    spec["clock_jumps"] = rng.random() < 0.15
    spec["missing_tmp"] = rng.random() < 0.03
    if spec["missing_tmp"]:
        spec["decoys"] = {k: v for k, v in spec["decoys"].items() if not k.startswith(("tmp/", "alt-tmp/"))}
    spec["symlink_tmp"] = (not spec["missing_tmp"]) and rng.random() < 0.06
    spec["t0"] = procworld.T0 + rng.choice([0, 0, 86400 * 200, -86400 * 3000, 86400 * 9000, 86400 * 0.9])
    spec["tz"] = inp["tz"] if dst else rng.choice(TZ_KNOB)
    if mode == "channels" or rng.random() < 0.3:
        kinds = []
    else:
        kinds = [k for k in FAULT_KINDS if rng.random() < 0.3]
    spec["faults"] = {"kinds": kinds, "p_proc": rng.choice([0.5, 1.0]), "p_second": 0.2, "horizon": rng.choice([12, 30, 48])}
    # persistent conditions (own stream, so the scenarios generated before this knob existed are unchanged)
    prng = rng_for(PROP, seed, f"persist-{idx}")
    if prng.random() < 0.12 and mode == "single":
        np_ = len(spec["procs"])
        spec["persist"] = {"cls": prng.choice(sorted(procworld.PERSIST)), "proc": None if prng.random() < 0.4 else prng.randrange(np_), "from": prng.choice([0, 0, 3, 8]) if prng.random() < 0.3 else prng.randrange(0, 70)}
    elif prng.random() < 0.08 and mode == "single":
        # statement-granular seam events: SIGINT (if enabled) can arrive between two statements of plan.py
        spec["points"] = True
        spec["faults"]["horizon"] *= 4
    return spec, [inp], rng


def gen_sweep_spec(seed: int, q: int, idx: int):
    """Systematic fault placement: base scenario b (a valid project with reports of its own, all fault kinds
    enabled) is run once per (event index, fault ordinal) pair with exactly that one fault injected."""
    per = SWEEP_EVENTS * SWEEP_ORDS
    b, r = divmod(q, per)
    rng = rng_for(PROP, seed, f"sweep-base-{b}")
    inp = gen.gen_project(rng, reports="always")
    inp.update(name="p0", kind="ok")
    spec = {"files": {}, "decoys": {}, "procs": [], "prop": PROP, "idx": idx, "mode": "single", "sweep": q}
    cliworld.place_inputs(rng, [inp], spec)
    cliworld.add_decoys(rng, spec, 0.5, ["p0"])
    ps = cliworld.make_proc(rng, inp, 0)
    spec["procs"].append(ps)
    spec.update(policy="seq", listing="perm", collide=False, name_salt=b % 4, clock_jumps=False, t0=procworld.T0, tz=None)
    spec["faults"] = {"kinds": list(FAULT_KINDS), "p_proc": 1.0, "p_second": 0.0, "horizon": SWEEP_EVENTS}
    spec["pin"] = {"proc": 0, "ev": 1 + r % SWEEP_EVENTS, "ord": r // SWEEP_EVENTS}  # ordinal-major: every event gets its first fault first
    return spec, [inp], rng_for(PROP, seed, f"sweep-{q}")


# ----------------------------------------------------------------------------- expectations


def expected_stdout(rows: list[dict], fmt: str, raw: bytes) -> str:
    if fmt == "json":
        doc = {"data": rows, "columns": ["id", "start", "end"], "report_id": hashlib.sha256(raw).hexdigest()}
        return json.dumps(doc, indent=2) + "\n"
    buf = io.StringIO()
    w = csv.writer(buf, lineterminator="\n")
    w.writerow(["Id", "Start", "End"])
    for r in rows:
        w.writerow([r["id"], r["start"], r["end"]])
    return buf.getvalue() + "\n"


def expectation(inp: dict, ps: dict, t0: float, tz: str | None = None) -> dict:
    """-> {"exit": int, "stdout": str | None}; stdout None means: not determined (clock-dependent input)."""
    kind = inp["kind"]
    if kind in ("missing", "dir"):
        return {"exit": 1, "stdout": ""}
    text = inp["text"]
    stdin = ps["channel"].startswith("stdin")
    if kind == "nonutf8":
        # the bytes are not text: "unreadable input" (1) and "report generation failed" (2) both describe it
        return {"exit": 2, "alt_exit": 1, "stdout": "", "why": "input is not valid UTF-8"}
    if kind == "empty":
        if stdin or text == "":
            return {"exit": 1, "stdout": ""}
    if stdin and not text.strip():
        return {"exit": 1, "stdout": ""}
    clocky = "uses-clock-macro" in inp.get("tags", []) or "no-now" in inp.get("tags", [])
    # plan reads the project in text mode (universal newlines): CR and CRLF are line ends for the CLI on every channel
    lv = libexpect.library_view(text.replace("\r\n", "\n").replace("\r", "\n"), t0 if clocky else None, tz=tz if clocky else None)
    if "harness" in lv or "hang" in lv:
        return {"harness": str(lv)}
    if "exc" in lv:
        return {"exit": 2, "stdout": "", "why": lv["exc"]}
    raw = text.encode("utf-8")
    exp = {"exit": 0, "stdout": expected_stdout(lv["rows"], ps["fmt"], raw), "rows": len(lv["rows"])}
    if _NUL_IN_REPORT_NAME.search(text):
        # a NUL byte inside the file name of one of the project's own reports: that report cannot be written
        # ("embedded null byte"), report generation fails, the contract says 2 - the library reference, which
        # writes no files, cannot see it
        exp["alt_exit"] = 2
    return exp


_NUL_IN_REPORT_NAME = __import__("re").compile(r'report\s+(\w+\s+)?"[^"\n]*\x00')


def _v(oracle, sig, detail):
    return {"oracle": oracle, "sig": f"{oracle}|{sig}", "detail": detail}


def same_report(out: str, want: str | None, fmt: str) -> bool:
    """Semantic equality with the expected document: the property fixes the content (data rows, columns,
    report_id; the cells for CSV), not the indentation, key order or CSV quoting style.  stdout must hold
    exactly one document and nothing else."""
    if want is None:
        return False
    if out == want:
        return True
    if fmt == "json":
        try:
            g, w = json.loads(out), json.loads(want)
        except ValueError:
            return False
        return isinstance(g, dict) and all(g.get(k) == w[k] for k in ("data", "columns", "report_id"))
    try:
        g = [r for r in csv.reader(io.StringIO(out)) if r]
        w = [r for r in csv.reader(io.StringIO(want)) if r]
    except csv.Error:
        return False
    return g == w


def _wellformed(out: str, fmt: str) -> bool:
    if fmt == "json":
        try:
            d = json.loads(out)
        except ValueError:
            return False
        return isinstance(d, dict) and set(d) >= {"data", "columns", "report_id"} and d["columns"] == ["id", "start", "end"]
    lines = out.split("\n")
    return lines[0] == "Id,Start,End"


def _input_path(path: str, inp: dict) -> bool:
    return path == inp.get("rel") or path.startswith("tmp/plan_stdin_") or path.startswith("alt-tmp/plan_stdin_") or path.startswith("cwd/plan_stdin_")


def oracles(spec: dict, inputs: list[dict], r: dict) -> list[dict]:
    V = []
    inp = inputs[0]
    clocky_run = bool(spec.get("clock_jumps")) and ("uses-clock-macro" in inp.get("tags", []) or "no-now" in inp.get("tags", []))
    outs = []
    for p in r["procs"]:
        ps = spec["procs"][p["i"]]
        exp = expectation(inp, ps, spec["t0"], spec.get("tz"))
        if "harness" in exp:
            V.append({"oracle": "harness", "sig": "harness|library-view", "detail": exp["harness"]})
            continue
        out, code, err = p["stdout"], p["exit"], p["stderr"]
        outs.append((ps["channel"], code, out))
        if p["hang"]:
            V.append(_v("exit", "hang", f"{ps['argv']} did not terminate"))
            continue
        # (a traceback on stderr is a diagnostic on stderr: allowed by the property; an uncaught exception is judged
        # by its exit status like everything else)
        faults = p["faults"]
        if not faults:
            # ---------------- fault-free: the contract applies verbatim
            if code != exp["exit"] and code != exp.get("alt_exit", exp["exit"]):
                V.append(_v("exit", f"{inp['kind']}|want{exp['exit']}|got{code}", f"{ps['argv']} on {inp['kind']} input exited {code}, contract says {exp['exit']} ({exp.get('why', '')}); stderr: {err[-200:]!r}"))
                continue
            if code != 0:
                if out != "":
                    V.append(_v("stdout-pure", f"output-on-failure|{inp['kind']}", f"{ps['argv']} exited {code} but wrote to stdout: {out[:120]!r}"))
                continue
            if clocky_run:
                if not _wellformed(out, ps["fmt"]):
                    V.append(_v("content", "malformed", f"{ps['argv']}: stdout is not a well-formed report: {out[:200]!r}"))
                continue
            if not same_report(out, exp["stdout"], ps["fmt"]):
                what = "malformed" if not _wellformed(out, ps["fmt"]) else "other-report-or-cells"
                if what != "malformed" and ps["fmt"] == "json":
                    got = json.loads(out)
                    want = json.loads(exp["stdout"])
                    if got.get("report_id") != want["report_id"]:
                        what = "report_id"
                    elif got.get("data") != want["data"]:
                        what = "rows"
                    else:
                        what = "extra-bytes"
                V.append(_v("content", f"{what}|{ps['fmt']}|{ps['channel'].split('-')[0]}", f"{ps['argv']}: stdout differs from the id/start/end report of all tasks ({what}); got {out[:300]!r}"))
            continue
        # ---------------- faulted: the table of DESIGN.md 5.2, applied to every fault received
        allowed: set[int] = set()
        any_short = False
        for f in faults:
            k, arg, path, op = f["kind"], f["arg"], f["path"], f["op"]
            if k == "sigint":
                allowed |= {1, 2, 130}
            elif k == "epipe":
                allowed |= {1, 2, 120, 141}
            elif k == "remove":
                allowed |= {0, 1, 2}
            elif arg == "short":
                allowed |= {0, 1, 2}
                any_short = True
            elif k == "stat" and _input_path(path, inp):
                allowed |= {0, 1, 2}  # a one-shot stat error can be absorbed (click probes the path, exists() ignores ENOENT-class errors)
            elif k in ("open-r", "read") and _input_path(path, inp):
                allowed |= {1, 2}
                if exp["exit"] != 0:
                    allowed.add(exp["exit"])
            elif k == "list":
                allowed |= {0, 2}
            elif "/plan_output_" in path and op in ("open-w", "write", "flush", "close") and arg != 17:
                # a report file in the per-run output directory could not be written - the auto report or one of the
                # project's own: report generation failed, the contract says 2 (nothing can be retried or absorbed here)
                allowed |= {2}
            else:
                allowed |= {0, 2}
            if exp["exit"] != 0:
                allowed.add(exp["exit"])
                allowed.add(exp.get("alt_exit", exp["exit"]))
        if code not in allowed:
            V.append(_v("exit", f"faulted|{'+'.join(sorted({f['kind'] for f in faults}))}|got{code}", f"{ps['argv']} exited {code} after {faults}; allowed {sorted(allowed)}; stderr {err[-200:]!r}"))
        # first fault on the first open/read of a present input: contract says 1
        f0 = faults[0]
        if exp["exit"] == 0 and f0["kind"] in ("open-r",) and f0["path"] == inp.get("rel") and not ps["channel"].startswith("stdin"):
            first_open = next((e for e in r["events"] if e[2] == "open-r" and e[3] == inp["rel"]), None)
            if first_open is not None and first_open[0] == f0["seq"] and code != 1:
                V.append(_v("exit", f"unreadable|want1|got{code}", f"{ps['argv']}: input unreadable from the start ({f0}) must exit 1, got {code}"))
        if code == 0 and not any_short and not clocky_run and exp["exit"] == 0 and not same_report(out, exp.get("stdout"), ps["fmt"]):
            V.append(_v("content", f"faulted|{ps['fmt']}", f"{ps['argv']} exited 0 after {faults} but stdout is not the expected report: {out[:200]!r}"))
        if code == 0 and exp["exit"] != 0 and not any_short:
            V.append(_v("exit", f"faulted-success|{inp['kind']}", f"{ps['argv']} exited 0 on {inp['kind']} input after {faults}"))
        if code != 0 and out != "":
            # something was printed and then the run failed: only acceptable if it is exactly the report
            # (fault after the report was emitted, e.g. SIGINT during cleanup, EPIPE at flush)
            if any_short or clocky_run:
                pass
            elif exp.get("stdout") is not None and exp["exit"] == 0 and (same_report(out, exp["stdout"], ps["fmt"]) or (exp["stdout"].startswith(out) and any(f["kind"] == "epipe" for f in faults))):
                pass
            else:
                V.append(_v("stdout-pure", f"output-on-failure|faulted", f"{ps['argv']} exited {code} after {faults} with stdout {out[:160]!r}"))
        if code == 0 and any_short and ps["fmt"] == "json" and not _wellformed(out, ps["fmt"]):
            # (CSV carries no integrity marker: after a torn read of the CSV file any prefix is all plan can emit)
            V.append(_v("content", "malformed|short", f"{ps['argv']}: exit 0 with malformed stdout after a torn read"))
    # ---------------- [channel]
    if spec.get("mode") == "channels" and len(outs) == 3 and not clocky_run and not any(p["faults"] for p in r["procs"]):
        ref = outs[0]
        for ch, code, out in outs[1:]:
            if (code, out) != (ref[1], ref[2]):
                if inp["kind"] == "empty" and {code, ref[1]} <= {1, 2} and out == ref[2] == "":
                    continue  # whitespace-only: "empty" on stdin (1), a parse failure from a file (2); nothing on stdout either way
                what = "exit" if code != ref[1] else ("report_id" if ps_json_diff_only_id(ref[2], out) else "bytes")
                V.append(_v("channel", f"{what}|{'crlf' if 'crlf' in inp.get('tags', []) else inp['kind']}", f"file channel gave exit {ref[1]}, {ch} gave exit {code}; stdout equal={out == ref[2]}"))
                break
    # ---------------- leftovers are C20's business, but a CLI run that litters is reported there, not here
    return V


def ps_json_diff_only_id(a: str, b: str) -> bool:
    try:
        da, db = json.loads(a), json.loads(b)
        return da.get("data") == db.get("data") and da.get("report_id") != db.get("report_id")
    except Exception:
        return False


# ----------------------------------------------------------------------------- worker side


def _execute(spec, inputs, tape):
    r = procworld.run_world(spec, tape)
    if r["harness_error"]:
        return r, [], r["harness_error"]
    V = oracles(spec, inputs, r)
    h = [v for v in V if v["oracle"] == "harness"]
    if h:
        return r, [], h[0]["detail"]
    return r, V, None


def _summary(spec, inputs, r, V, herr):
    import checks.c20 as c20

    s = c20._summary(spec, inputs, r, V, herr)
    nfault = sum(len(p["faults"]) for p in r["procs"])
    s["nontrivial"] = bool(nfault > 0 or s["perms"] > 0 or spec.get("mode") == "channels" or inputs[0]["kind"] != "ok")
    s["fault_sig"] = s["fault_sig"] + [[inputs[0]["kind"], spec.get("mode"), spec["procs"][0]["channel"], spec["procs"][0]["fmt"]]]
    return s


def run_scenario(args: dict) -> dict:
    spec, inputs, rng = gen_spec(args["seed"], args["idx"], args["tier"])
    tape = Tape(rng)
    r, V, herr = _execute(spec, inputs, tape)
    s = _summary(spec, inputs, r, V, herr)
    if V or args.get("want_spec"):
        s["spec"] = spec
        s["inputs"] = inputs
        s["events_log"] = r["events"]
    elif args.get("sample"):
        s["sample"] = {"procs": [ps["argv"] for ps in spec["procs"]], "input_kind": inputs[0]["kind"], "kinds": spec["faults"]["kinds"], "exits": [p["exit"] for p in r["procs"]], "events_head": r["events"][:30]}
    return s


def replay_scenario(args: dict) -> dict:
    spec, inputs = args["spec"], args["inputs"]
    tape = Tape(replay=args["tape"])
    r, V, herr = _execute(spec, inputs, tape)
    s = _summary(spec, inputs, r, V, herr)
    s["events_log"] = r["events"]
    s["stderr"] = [p["stderr"][-600:] for p in r["procs"]]
    s["stdout"] = [p["stdout"][:600] for p in r["procs"]]
    return s


def shrink_candidates(spec: dict, inputs: list[dict]):
    import copy

    if spec.get("decoys"):
        s2 = copy.deepcopy(spec)
        s2["decoys"] = {k: v for k, v in spec["decoys"].items() if k.startswith("in/") or k.rstrip("/") == inputs[0].get("rel")}
        if s2["decoys"] != spec["decoys"]:
            yield s2, inputs
    for key, val in (("collide", False), ("clock_jumps", False), ("listing", "sorted"), ("tz", None)):
        if spec.get(key) != val:
            s2 = copy.deepcopy(spec)
            s2[key] = val
            yield s2, inputs
    if spec.get("persist"):
        s2 = copy.deepcopy(spec)
        del s2["persist"]
        yield s2, inputs
    for k in list(spec["faults"]["kinds"]):
        s2 = copy.deepcopy(spec)
        s2["faults"]["kinds"] = [x for x in spec["faults"]["kinds"] if x != k]
        yield s2, inputs


EXPECTED_PROBES = ["success", "except-FileNotFoundError", "except-ReportGenerationError", "except-Exception", "click-abort", "main-fatal", "injected-EEXIST", "tmp-fallback-to-alt", "tmp-fallback-to-cwd"]
CONFIGS = [
    {"hashseed": 0, "block": []},
    {"hashseed": 1, "block": []},
    {"hashseed": 2, "block": ["scoreboard_cy", "time_utils_cy", "working_hours_cy"]},
    {"hashseed": 3, "block": ["time_utils_cy"]},
]
COUNTS = {"quick": {"count": 2000, "wall": 100}, "thorough": {"count": 40000, "wall": 1500}}
RULE = (
    "scenario = one simulated `plan report` run (or the same bytes through file / '-' / omitted-argument channels) over a seeded world: "
    "input class, format, verbosity, listing permutation, name collisions, decoys, clock, TZ, enabled fault kinds, tape; "
    "non-trivial = a fault fired, a listing permutation was applied, a failing input class, or a channel comparison; "
    "distinct = distinct (event-sequence hash, fault signature + input class + channel + format) pairs"
)
ASSUMPTIONS = [
    "the reference for [content] is the library API (ProjectFileParser.parse + schedule) on the original text in a fresh fault-free interpreter of the same snapshot",
    "stdin is modelled as a text stream without newline translation, as the real POSIX sys.stdin (newline='\\n')",
    "a simulated process is a fork of an idle interpreter that has scriptplan imported, not an exec (calibrated against real subprocesses in selftest)",
    "stderr is never compared byte for byte (Lark's expected-token list is set-ordered)",
    "sampling, not enumeration",
]


def main() -> int:
    from simplan import driver
    import checks.c19 as me

    return driver.drive(me, CONFIGS, COUNTS, RULE, ASSUMPTIONS)
