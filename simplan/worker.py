"""Worker interpreter: zygote + coordinator for simulated worlds.

Started by the pool with PYTHONPATH=<snapshot>:/verif, a chosen PYTHONHASHSEED and
SIMPLAN_BLOCK_EXT (comma list of extension modules whose import must fail: the
`import` fault).  Reads one JSON job per line on stdin, answers one JSON line on the
protocol fd.  The worker itself never executes scriptplan code beyond importing it;
all execution happens in forked children.
"""

from __future__ import annotations

import faulthandler
import importlib
import importlib.abc
import json
import os
import sys
import traceback


class _Blocker(importlib.abc.MetaPathFinder):
    def __init__(self, names):
        self.names = set(names)
        self.hits: dict[str, int] = {}

    def find_spec(self, fullname, path=None, target=None):
        if fullname in self.names:
            self.hits[fullname] = self.hits.get(fullname, 0) + 1
            raise ImportError(f"simplan: import fault injected for {fullname}")
        return None


BLOCKER = None


def main() -> None:
    global BLOCKER
    proto = os.fdopen(os.dup(1), "w", buffering=1)
    os.dup2(2, 1)  # anything printed by accident goes to stderr, never into the protocol
    faulthandler.enable()
    block = [x for x in os.environ.get("SIMPLAN_BLOCK_EXT", "").split(",") if x]
    BLOCKER = _Blocker("scriptplan._cython." + b for b in block)
    sys.meta_path.insert(0, BLOCKER)
    info = {"ready": True, "pid": os.getpid(), "hashseed": os.environ.get("PYTHONHASHSEED"), "block": block}
    try:
        import scriptplan
        import scriptplan.cli.main  # noqa: F401
        import scriptplan.cli.plan  # noqa: F401
        import scriptplan.core.project as _p
        import scriptplan.core.working_hours as _w
        import scriptplan.parser.tjp_parser  # noqa: F401
        import scriptplan.report  # noqa: F401
        import scriptplan.scheduler.scoreboard as _s

        info["scriptplan"] = os.path.dirname(scriptplan.__file__)
        info["native"] = {"scoreboard": _s._USE_CYTHON, "time_utils": _p._USE_CYTHON, "working_hours": _w._USE_CYTHON}
        info["blocked_hits"] = dict(BLOCKER.hits)
    except BaseException as e:
        info = {"ready": False, "error": f"{type(e).__name__}: {e}", "tb": traceback.format_exc()}
    proto.write(json.dumps(info) + "\n")
    for line in sys.stdin:
        line = line.strip()
        if not line:
            continue
        job = json.loads(line)
        if job.get("quit"):
            break
        try:
            mod = importlib.import_module(job["mod"])
            res = getattr(mod, job["fn"])(job["args"])
            out = {"ok": True, "res": res}
        except BaseException as e:
            out = {"ok": False, "error": f"{type(e).__name__}: {e}", "tb": traceback.format_exc()}
        proto.write(json.dumps(out, default=str) + "\n")
    proto.close()


if __name__ == "__main__":
    main()
