"""Interpreter world: library calls executed in a forked child under a deterministic step clock.

The step clock counts function entries and loop back-edges (sys.monitoring, PEP 669).
It is the budget for bounded liveness (C11) and the instant at which a cancellation is
injected (C12): raising from the callback propagates into the running engine code.
"""

from __future__ import annotations

import contextlib
import io
import json
import os
import select
import signal
import sys
import traceback

TOOL_ID = 3  # sys.monitoring tool slot


class StepBudgetExceeded(BaseException):
    pass


class InjectedCancel(BaseException):
    """Base for cancellations raised at a chosen step (subclasses mimic the real exception)."""


class StepClock:
    def __init__(self):
        self.steps = 0
        self.budget = None
        self.cancel_at = None
        self.cancel_exc = None
        self.fired = False
        self.active = False

    def install(self):
        mon = sys.monitoring
        mon.use_tool_id(TOOL_ID, "simplan-stepclock")
        ev = mon.events
        clock = self

        def tick(*_a):
            clock.steps += 1
            if clock.cancel_at is not None and clock.steps >= clock.cancel_at and not clock.fired:
                clock.fired = True
                exc = clock.cancel_exc
                clock.cancel_at = None
                raise exc
            if clock.budget is not None and clock.steps > clock.budget:
                clock.budget = None
                raise StepBudgetExceeded(f"step budget exceeded at {clock.steps}")

        mon.register_callback(TOOL_ID, ev.PY_START, tick)
        mon.register_callback(TOOL_ID, ev.JUMP, tick)
        mon.set_events(TOOL_ID, ev.PY_START | ev.JUMP)
        self.active = True

    def uninstall(self):
        if self.active:
            sys.monitoring.set_events(TOOL_ID, 0)
            sys.monitoring.free_tool_id(TOOL_ID)
            self.active = False

    def pause(self):
        if self.active:
            sys.monitoring.set_events(TOOL_ID, 0)

    def resume(self):
        if self.active:
            ev = sys.monitoring.events
            sys.monitoring.set_events(TOOL_ID, ev.PY_START | ev.JUMP)


def innermost_scriptplan_frame(exc: BaseException) -> str:
    tb = traceback.extract_tb(exc.__traceback__)
    fr = [f for f in tb if "/scriptplan/" in f.filename and not f.filename.endswith(("message_handler.py", "scenario_data.py"))]
    if not fr:
        fr = [f for f in tb if "simplan" not in f.filename]
    if not fr:
        return "?"
    return ">".join(f"{os.path.basename(f.filename)}:{f.name}" for f in fr[-2:])


def fork_call(fn, args: tuple, timeout: float) -> dict:
    """Run fn(*args) in a forked child; fn returns a JSON-able dict.  Hard kill on wall timeout."""
    r, w = os.pipe()
    sys.stdout.flush()
    sys.stderr.flush()
    pid = os.fork()
    if pid == 0:
        os.close(r)
        try:
            try:
                import ctypes

                ctypes.CDLL(None).prctl(1, signal.SIGKILL)  # PR_SET_PDEATHSIG: never outlive the worker
            except Exception:
                pass
            try:
                import resource

                lim = int(os.environ.get("SIMPLAN_CHILD_AS_BYTES", 6 << 30))
                resource.setrlimit(resource.RLIMIT_AS, (lim, lim))  # a runaway allocation becomes MemoryError, not an OOM kill
            except Exception:
                pass
            try:
                out = fn(*args)
            except BaseException as e:  # harness bug inside the child
                out = {"harness": f"{type(e).__name__}: {e}", "tb": traceback.format_exc()[-1500:]}
            data = json.dumps(out, default=str).encode()
            off = 0
            while off < len(data):
                off += os.write(w, data[off : off + 65536])
        finally:
            os._exit(0)
    os.close(w)
    chunks = []
    res = None
    import time

    deadline = time.time() + timeout
    while True:
        left = deadline - time.time()
        rd = select.select([r], [], [], max(0.0, left))[0] if left > 0 else []
        if not rd:
            try:
                os.kill(pid, signal.SIGKILL)
            except ProcessLookupError:
                pass
            res = {"wall_timeout": True}
            break
        chunk = os.read(r, 1 << 16)
        if not chunk:
            break
        chunks.append(chunk)
    os.close(r)
    try:
        os.waitpid(pid, 0)
    except ChildProcessError:
        pass
    if res is None:
        try:
            res = json.loads(b"".join(chunks))
        except ValueError:
            res = {"harness": "child died without an answer (crash in C code?)"}
    return res


# ----------------------------------------------------------------------------- C11 case


def _measure(project) -> dict:
    try:
        tasks = list(project.tasks)
        res = list(project.resources)
        st, en = project.attributes.get("start"), project.attributes.get("end")
        gran = project.attributes.get("scheduleGranularity") or 3600
        H = int((en - st).total_seconds() / gran) + 1 if st and en else 0
        return {"T": len(tasks), "R": len(res), "H": H, "gran": gran, "S": len(list(project.scenarios))}
    except Exception as e:
        return {"T": 0, "R": 0, "H": 0, "err": str(e)}


def c11_case(text: str, budget_parse: int | None, budget_fn: dict | None) -> dict:
    """parse(text, schedule=False) then project.schedule(), each under the step clock."""
    from scriptplan.parser.tjp_parser import ProjectFileParser
    from scriptplan.utils.message_handler import MessageHandlerInstance

    out: dict = {"len": len(text)}
    clock = StepClock()
    err = io.StringIO()
    mh = MessageHandlerInstance()
    parser = ProjectFileParser()  # Lark grammar compilation is not what the property bounds
    clock.install()
    project = None
    try:
        with contextlib.redirect_stderr(err), contextlib.redirect_stdout(io.StringIO()):
            clock.budget = budget_parse
            try:
                project = parser.parse(text, schedule=False)
                out["parse"] = "accepted"
            except StepBudgetExceeded:
                out["parse"] = "budget"
            except Exception as e:
                out["parse"] = "rejected"
                out["parse_exc"] = type(e).__name__
                orig = getattr(e, "orig_exc", None)  # lark.VisitError wraps what a transformer callback raised
                if orig is not None:
                    out["parse_exc"] += ":" + type(orig).__name__
                    out["parse_frame"] = innermost_scriptplan_frame(orig)
                else:
                    out["parse_frame"] = innermost_scriptplan_frame(e)
                out["parse_msg"] = str(orig if orig is not None else e)[:160]
            except BaseException as e:
                out["parse"] = "escaped"
                out["parse_exc"] = type(e).__name__
                out["parse_frame"] = innermost_scriptplan_frame(e)
            out["steps_parse"] = clock.steps
            if project is not None:
                clock.pause()
                m = _measure(project)
                out["m_before"] = m
                pinned = _pinned(project)
                M = out["len"] + _horizon_after_extension(project, m) * (m["R"] + m["T"] + 1) * m.get("S", 1) + m["T"] ** 2
                out["M"] = M
                clock.budget = int(min(budget_fn["c0"] + budget_fn["c1"] * M, budget_fn.get("cap", 1e18))) if budget_fn is not None else None
                out["budget"] = clock.budget
                clock.steps = 0
                clock.resume()
                try:
                    project.schedule()
                    out["sched"] = "returned"
                except StepBudgetExceeded:
                    out["sched"] = "budget"
                except Exception as e:
                    out["sched"] = "raised"
                    out["sched_exc"] = type(e).__name__
                    out["sched_frame"] = innermost_scriptplan_frame(e)
                    out["sched_msg"] = str(e)[:160]
                except BaseException as e:
                    out["sched"] = "escaped"
                    out["sched_exc"] = type(e).__name__
                    out["sched_frame"] = innermost_scriptplan_frame(e)
                out["steps_sched"] = clock.steps
    finally:
        clock.uninstall()
    if project is not None and out.get("sched") == "returned":
        m2 = _measure(project)
        out["m_after"] = m2
        out["disposition"] = _disposition(project, pinned)
    try:
        msgs = mh.messages
        out["warnings"] = sum(1 for x in msgs if str(x.type.value) == "warning")
        out["errors"] = sum(1 for x in msgs if str(x.type.value) in ("error", "fatal"))
    except Exception:
        out["warnings"] = -1
    out["stderr_tail"] = err.getvalue()[-300:]
    return out


def _horizon_after_extension(project, m) -> int:
    """Slots of the horizon the scheduler will work on (schedule() may extend the project end first)."""
    try:
        import copy

        st, en = project.attributes.get("start"), project.attributes.get("end")
        if not st or not en:
            return m["H"]
        saved = project.attributes["end"]
        project._extendProjectEndIfNeeded()
        en2 = project.attributes["end"]
        project.attributes["end"] = saved
        gran = m.get("gran") or 3600
        return int((en2 - st).total_seconds() / gran) + 1
    except Exception:
        return m["H"]


def _pinned(project) -> dict:
    """Input dates of leaf tasks per scenario, taken before schedule() touches anything: the start/end the
    user pinned on the task itself or on one of its containers (container dates are handed down as bounds)."""
    out = {}
    try:
        for sc in project.scenarios:
            scIdx = sc.sequenceNo - 1
            for t in project.tasks:
                if t.leaf():
                    vals = set()
                    node = t
                    while node is not None:
                        for a in ("start", "end"):
                            v = node.get(a, scIdx)
                            if v is not None:
                                vals.add(v)
                        node = node.parent
                    out[(t.fullId, scIdx)] = vals
    except Exception:
        pass
    return out


def _disposition(project, pinned=None) -> dict:
    pinned = pinned or {}
    bad = []
    n_leaf = n_sched = n_unsched = 0
    st, en = project.attributes.get("start"), project.attributes.get("end")
    nsc = 0
    for sc in project.scenarios:
        if not sc.get("active") and sc.get("active") is not None:
            continue
        scIdx = sc.sequenceNo - 1
        nsc += 1
        for t in project.tasks:
            if not t.leaf():
                continue
            n_leaf += 1
            s, e = t.get("start", scIdx), t.get("end", scIdx)
            if t.get("scheduled", scIdx):
                n_sched += 1
                inputs = pinned.get((t.fullId, scIdx), set())
                if s is None or e is None:
                    bad.append([t.fullId, scIdx, "scheduled-without-dates", str(s), str(e)])
                elif s > e:
                    how = "|pinned-start-and-end" if (s in inputs and e in inputs) else ""
                    gran = project.attributes.get("scheduleGranularity") or 3600
                    if not how and st and int((s - st).total_seconds() // gran) == int((e - st).total_seconds() // gran):
                        how = "|same-slot"  # sub-slot work after a mid-slot start: end computed from the slot start
                    bad.append([t.fullId, scIdx, "start>end" + how, str(s), str(e)])
                elif st and en and (s < st or e > en):
                    off = [x for x in (s, e) if x < st or x > en]
                    how = "|pinned-date" if all(x in inputs for x in off) else ""
                    gran = project.attributes.get("scheduleGranularity") or 3600
                    if not how and s >= st and s <= en and e > en and (e - en).total_seconds() <= gran:
                        how = "|last-slot"  # work booked in the table's final slot, which starts AT the project end
                    bad.append([t.fullId, scIdx, "outside-horizon" + how, str(s), str(e)])
            else:
                n_unsched += 1
    return {"leaves": n_leaf, "scheduled": n_sched, "unscheduled": n_unsched, "bad": bad[:5], "scenarios": nsc}


# ----------------------------------------------------------------------------- C12 / C13 histories

CLOCKS = [1_750_075_200.0, 1_750_161_600.0, 1_434_542_400.0]  # 2025-06-16 12:00Z, +1 day, 2015-06-17 12:00Z
TZS = ["UTC", "Europe/Berlin", "America/New_York"]  # offsets that keep the local date equal to the UTC date at 12:00Z


def dates_digest(project) -> list:
    out = []
    for sc in project.scenarios:
        scIdx = sc.sequenceNo - 1
        for t in project.tasks:
            out.append([scIdx, t.fullId, str(t.get("start", scIdx)), str(t.get("end", scIdx)), bool(t.get("scheduled", scIdx))])
    return out


def _read_tree(root: str) -> dict:
    import hashlib

    out = {}
    for dp, dn, fn in os.walk(root):
        dn.sort()
        for f in sorted(fn):
            p = os.path.join(dp, f)
            with open(p, "rb") as fh:
                out[os.path.relpath(p, root)] = hashlib.sha256(fh.read()).hexdigest()[:16]
    return out


def _clean_dir(root: str) -> None:
    import shutil

    for n in os.listdir(root):
        p = os.path.join(root, n)
        if os.path.isdir(p):
            shutil.rmtree(p, ignore_errors=True)
        else:
            try:
                os.unlink(p)
            except OSError:
                pass


def report_observation(project, k: int, outdir: str) -> list:
    """Generate report number k of the project the way cli.main does; return everything observable."""
    import hashlib

    from scriptplan.report import ReportContext

    reports = list(project.reports)
    if not reports:
        return ["no-reports"]
    report = reports[k % len(reports)]
    _clean_dir(outdir)
    project.outputDir = outdir
    ctx = ReportContext(project, report)
    ctx.push()
    try:
        rc = report.generate()
        js = report.to_json()
        cs = report.to_csv()
    finally:
        ctx.pop()
    return [
        report.fullId,
        rc,
        hashlib.sha256(json.dumps(js, sort_keys=True, default=str).encode()).hexdigest()[:16],
        hashlib.sha256(json.dumps(cs, default=str).encode()).hexdigest()[:16],
        _read_tree(outdir),
    ]


def cli_observation(text: str, workdir: str, outdir: str) -> list:
    from scriptplan.cli.main import run_scriptplan

    _clean_dir(outdir)
    path = os.path.join(workdir, "cli_input.tjp")
    with open(path, "w", encoding="utf-8", newline="") as f:
        f.write(text)
    ok, _msg = run_scriptplan(path, outdir)
    return [bool(ok), _read_tree(outdir)]


def _quiet():
    return contextlib.redirect_stderr(io.StringIO())


def c12_baseline(text: str, clock_ts: list, workdir: str) -> dict:
    """Fresh-interpreter reference for one text: dates, every report, the in-process CLI, step counts."""
    from .seams import install_datetime_seam

    now = {"t": clock_ts[0]}
    install_datetime_seam(lambda: now["t"])
    os.environ["TZ"] = "UTC"
    import time

    time.tzset()
    from scriptplan.parser.tjp_parser import ProjectFileParser

    outdir = os.path.join(workdir, "out")
    os.makedirs(outdir, exist_ok=True)
    res = {"by_clock": {}}
    clock = StepClock()
    clock.install()
    try:
        for ts in clock_ts:
            now["t"] = ts
            b: dict = {}
            with _quiet(), contextlib.redirect_stdout(io.StringIO()):
                s0 = clock.steps
                try:
                    project = ProjectFileParser().parse(text)
                    b["parse_steps"] = clock.steps - s0
                    b["dates"] = dates_digest(project)
                    s0 = clock.steps
                    project.schedule()
                    b["resched_steps"] = clock.steps - s0
                    b["dates_after_reschedule"] = dates_digest(project)
                    nrep = len(list(project.reports))
                    b["nreports"] = nrep
                    reps = []
                    s0 = clock.steps
                    for k in range(nrep):
                        try:
                            reps.append(report_observation(project, k, outdir))
                        except Exception as e:
                            reps.append(["exc", type(e).__name__])
                    b["report_steps"] = (clock.steps - s0) // max(1, nrep)
                    b["reports"] = reps
                    b["dates_after_reports"] = dates_digest(project)
                except SystemExit:
                    b["exc"] = "SystemExit"
                    b["parse_steps"] = clock.steps - s0
                except Exception as e:
                    b["exc"] = type(e).__name__
                    b["parse_steps"] = clock.steps - s0
                try:
                    b["cli"] = cli_observation(text, workdir, outdir)
                except SystemExit:
                    b["cli"] = ["SystemExit"]
            res["by_clock"][str(ts)] = b
    finally:
        clock.uninstall()
    return res


def c12_history(spec: dict) -> dict:
    """Execute one seeded history of library calls in this (forked) interpreter and compare every
    observation with the fresh-interpreter baselines."""
    import errno
    import gc
    import random
    import time

    from .seams import install_datetime_seam
    from .tape import Tape

    texts = spec["texts"]
    base = spec["baselines"]  # per text: c12_baseline result
    clocky = spec["clocky"]  # per text: bool
    workdir = spec["workdir"]
    outdir = os.path.join(workdir, "out")
    os.makedirs(outdir, exist_ok=True)
    now = {"i": 0}
    install_datetime_seam(lambda: CLOCKS[now["i"]])
    os.environ["TZ"] = "UTC"
    time.tzset()
    tape = Tape(random.Random(spec["rng_seed"])) if spec.get("tape") is None else Tape(replay=spec["tape"])
    n_ops = spec["n_ops"]
    fault_free = spec.get("fault_free", False)

    from scriptplan.parser.tjp_parser import ProjectFileParser

    parser = ProjectFileParser()
    clock = StepClock()
    handles: list[dict] = []
    log: list = []
    V: list = []
    stats = {"cancel_armed": 0, "cancel_fired": {}, "io_faults": 0, "clock_jumps": 0, "tz_changes": 0, "observations": 0, "alternations": 0, "ops": {}}
    last_steps: dict = {}
    armed = None
    io_fault = {"on": False, "fired": False}
    real_open = __import__("builtins").open

    def p_open(file, *a, **kw):
        if io_fault["on"] and isinstance(file, (str, os.PathLike)) and str(file).startswith(outdir) and (a and any(c in a[0] for c in "wax")):
            io_fault["on"] = False
            io_fault["fired"] = True
            raise OSError(errno.ENOSPC, os.strerror(errno.ENOSPC), str(file))
        return real_open(file, *a, **kw)

    import builtins

    builtins.open = p_open
    io.open = p_open

    def bl(ti):
        key = str(CLOCKS[now["i"]]) if clocky[ti] else str(CLOCKS[0])
        return base[ti]["by_clock"][key]

    def mismatch(kind, opi, ti, what, got, want):
        V.append({"oracle": kind, "sig": f"{kind}|{what.split(',')[0]}", "detail": f"op {opi} on text {ti}: {what}: got {json.dumps(got, default=str)[:300]} want {json.dumps(want, default=str)[:300]}", "op": opi})

    last_text = None
    after_fault = False
    clock.install()
    try:
        for opi in range(n_ops):
            kinds = ["parse", "parse", "parse_ns", "schedule", "observe", "observe", "report", "report", "cli", "gc"]
            if not fault_free:
                kinds += ["cancel", "cancel", "io_fault", "clock", "tz", "env"]
            kd = tape.draw(len(kinds))
            k = kinds[kd]
            if after_fault and k in ("gc", "clock", "tz", "env", "cancel", "io_fault", "schedule"):
                # look at the engine right after a call that was cancelled or failed: that is when leftover state shows
                k = ("parse", "cli", "parse", "report")[kd % 4]
                stats["post_fault_observations"] = stats.get("post_fault_observations", 0) + 1
            elif armed is not None and k in ("gc", "clock", "tz", "env", "observe", "io_fault"):
                # an armed cancellation is spent on an operation that runs the parser / scheduler / report writer
                k = ("parse", "cli", "schedule", "parse", "report")[kd % 5]
            after_fault = False
            stats["ops"][k] = stats["ops"].get(k, 0) + 1
            if k == "gc":
                gc.collect()
                log.append([opi, k])
                continue
            if k == "clock":
                now["i"] = tape.draw(len(CLOCKS))
                stats["clock_jumps"] += 1
                log.append([opi, k, now["i"]])
                continue
            if k == "tz":
                tz = TZS[tape.draw(len(TZS))]
                os.environ["TZ"] = tz
                time.tzset()
                stats["tz_changes"] += 1
                log.append([opi, k, tz])
                continue
            if k == "env":
                # process state an embedding application may change between two calls: none of it is project text
                e = tape.draw(6)
                v = tape.draw(4)
                try:
                    if e == 0:
                        os.chdir([outdir, os.path.dirname(outdir) or "/", "/", outdir][v])
                    elif e == 1:
                        import locale

                        locale.setlocale(locale.LC_ALL, ["C", "C.UTF-8", "POSIX", "C"][v])
                    elif e == 2:
                        import logging

                        logging.getLogger().setLevel([logging.DEBUG, logging.WARNING, logging.CRITICAL, logging.NOTSET][v])
                    elif e == 3:
                        import random as _random

                        _random.seed(v)
                        _random.random()
                    elif e == 4:
                        sys.setrecursionlimit([1500, 3000, 10000, 2000][v])
                    else:
                        import decimal

                        decimal.getcontext().prec = [6, 28, 50, 12][v]
                except Exception:  # noqa: BLE001 - a locale this image does not have
                    pass
                stats["env_changes"] = stats.get("env_changes", 0) + 1
                log.append([opi, k, e, v])
                continue
            if k == "cancel":
                armed = {"exc": tape.draw(3), "frac": tape.draw(100)}
                stats["cancel_armed"] += 1
                log.append([opi, k, armed["exc"], armed["frac"]])
                continue
            if k == "io_fault":
                io_fault["on"] = True
                io_fault["fired"] = False
                stats["io_faults"] += 1
                log.append([opi, k])
                continue
            # ---- ops that run engine code
            ti = None
            h = None
            if k in ("parse", "parse_ns", "cli"):
                ti = tape.draw(len(texts))
            else:
                if not handles:
                    log.append([opi, k, "no-handle"])
                    continue
                h = handles[tape.draw(len(handles))]
                ti = h["text"]
            if last_text is not None and ti != last_text:
                stats["alternations"] += 1
            last_text = ti
            B = bl(ti)
            rk = tape.draw(8) if k == "report" else 0
            # arm the cancellation inside this op's own step window (nothing of the harness may run
            # between arming and the operation: the step clock ticks for harness code too)
            fired_before = clock.fired = False
            if armed is not None:
                window = last_steps.get((k, ti)) or {"parse": B.get("parse_steps"), "parse_ns": B.get("parse_steps"), "schedule": B.get("resched_steps"), "report": B.get("report_steps"), "observe": 50, "cli": (B.get("parse_steps") or 0) * 2}.get(k) or 1000
                s = 1 + int(window * armed["frac"] / 100.0)
                clock.cancel_at = clock.steps + s
                clock.cancel_exc = [KeyboardInterrupt(), MemoryError(), OSError(errno.EIO, "injected")][armed["exc"]]
            s0 = clock.steps
            outcome = None
            exc = None
            # an operation that finishes in a fresh interpreter must finish here too: 40x its fresh cost (at least
            # 3e7 steps) is the bound after which it counts as not returning
            fresh = {"parse": B.get("parse_steps"), "parse_ns": B.get("parse_steps"), "schedule": B.get("resched_steps"), "report": B.get("report_steps"), "cli": (B.get("parse_steps") or 0) * 2}.get(k) or 0
            op_budget = max(30_000_000, 40 * fresh)
            clock.budget = clock.steps + op_budget

            def do_op():
                # a frame of its own: whatever the cancellation interrupts - including the context
                # managers' enter/exit - unwinds into the caller's handler below
                with _quiet(), contextlib.redirect_stdout(io.StringIO()):
                    if k == "parse":
                        p = parser.parse(texts[ti])
                        hh = {"text": ti, "project": p, "scheduled": True, "poisoned": False, "clock": now["i"]}
                        handles.append(hh)
                        return hh, None
                    if k == "parse_ns":
                        p = parser.parse(texts[ti], schedule=False)
                        hh = {"text": ti, "project": p, "scheduled": False, "poisoned": False, "clock": now["i"]}
                        handles.append(hh)
                        return hh, None
                    if k == "schedule":
                        h["project"].schedule()
                        h["scheduled"] = True
                        return h, None
                    if k == "observe":
                        return h, dates_digest(h["project"])
                    if k == "report":
                        return h, report_observation(h["project"], rk, outdir)
                    if k == "cli":
                        return h, cli_observation(texts[ti], workdir, outdir)
                return h, None

            try:
                h, outcome = do_op()
            except BaseException as e:
                exc = e
            finally:
                clock.cancel_at = None
                clock.budget = None
            if isinstance(exc, StepBudgetExceeded):
                mismatch("progress", opi, ti, f"op-step-budget, {k} did not return within {op_budget} steps (a fresh interpreter needs {fresh} for the same text)", None, fresh)
                log.append([opi, k, ti, "StepBudgetExceeded", None, None])
                if h is not None:
                    h["poisoned"] = True
                parser = ProjectFileParser()
                armed = None
                clock.fired = False
                continue
            fired = clock.fired
            clock.fired = False
            was_armed = armed is not None
            armed = None
            io_hit = io_fault["fired"]
            io_fault["on"] = False
            io_fault["fired"] = False
            last_steps[(k, ti)] = max(1, clock.steps - s0)
            log.append([opi, k, ti, type(exc).__name__ if exc else None, "cancel-fired" if fired else ("cancel-missed" if was_armed else None), "io" if io_hit else None])
            if len(handles) > 6:
                handles.pop(0)
            if fired or io_hit or (exc is not None and not isinstance(exc, Exception)):
                after_fault = True
            if fired:
                nm = type(clock.cancel_exc).__name__
                stats["cancel_fired"][nm] = stats["cancel_fired"].get(nm, 0) + 1
                if h is not None:
                    h["poisoned"] = True
                if k in ("parse", "parse_ns", "cli"):
                    parser = ProjectFileParser()  # a parser interrupted in mid-parse is not reused either
                continue
            if h is not None and h.get("poisoned"):
                continue
            # ---- oracles
            hb = B
            if h is not None and clocky[ti]:
                hb = base[ti]["by_clock"][str(CLOCKS[h["clock"]])]
            if k in ("parse", "parse_ns"):
                want = hb.get("exc") if k == "parse" or hb.get("exc") not in (None,) else hb.get("exc")
                got = type(exc).__name__ if exc else None
                if k == "parse_ns" and want is not None and got is None:
                    # the baseline may have failed only in schedule(); then parse without scheduling legitimately succeeds
                    h["maybe_sched_exc"] = want
                elif got != want:
                    mismatch("exception-class", opi, ti, f"{k} raised {got}, fresh interpreter raised {want}", got, want)
                stats["observations"] += 1
                continue
            if exc is not None and not io_hit:
                if k == "schedule" and h.get("maybe_sched_exc") == type(exc).__name__:
                    h["poisoned"] = True
                    continue
                mismatch("exception-class", opi, ti, f"{k} raised {type(exc).__name__} on a handle the fresh interpreter handles without error", type(exc).__name__, None)
                continue
            if io_hit:
                continue  # the write was made to fail; nothing to compare, the handle stays under observation
            if k == "observe":
                stats["observations"] += 1
                if not h["scheduled"]:
                    continue
                if outcome != hb.get("dates"):
                    bad = next(((a, b) for a, b in zip(outcome, hb.get("dates") or []) if a != b), (len(outcome), len(hb.get("dates") or [])))
                    mismatch("digest", opi, ti, "task dates differ from the fresh-interpreter run", bad[0], bad[1])
            elif k == "report":
                stats["observations"] += 1
                if not h["scheduled"] or "reports" not in hb:
                    continue
                if outcome[0] == "no-reports":
                    continue
                want = hb["reports"][rk % len(hb["reports"])] if hb["reports"] else None
                if want is not None and outcome != want:
                    mismatch("digest", opi, ti, "report differs from the fresh-interpreter run", outcome, want)
            elif k == "cli":
                stats["observations"] += 1
                if outcome != hb.get("cli"):
                    mismatch("digest", opi, ti, "in-process CLI output differs from the fresh-interpreter run", outcome, hb.get("cli"))
    finally:
        clock.uninstall()
        builtins.open = real_open
        io.open = real_open
    return {"viol": V[:5], "log": log, "tape": list(tape.rec), "stats": stats, "steps": clock.steps}


# ----------------------------------------------------------------------------- C13 shadow run


def c13_shadow_run(texts: list, rng_seed: str, workdir: str, dense: bool = False) -> dict:
    """All-native interpreter: run each text end to end (parse, schedule, every report) plus the probe
    client, with the shadow monitor comparing native and pure-Python outcome of every paired call."""
    import random

    from .shadow import Shadow, probe_client

    from scriptplan.parser.tjp_parser import ProjectFileParser

    rng = random.Random(rng_seed)
    outdir = os.path.join(workdir, "out")
    os.makedirs(outdir, exist_ok=True)
    sh = Shadow()
    have = sh.install()
    outcomes = []
    probes = 0
    try:
        parser = ProjectFileParser()
        for text in texts:
            with _quiet(), contextlib.redirect_stdout(io.StringIO()):
                try:
                    project = parser.parse(text)
                    outcomes.append("scheduled")
                except SystemExit:
                    outcomes.append("SystemExit")
                    continue
                except Exception as e:
                    outcomes.append(type(e).__name__)
                    try:
                        project = parser.parse(text, schedule=False)
                    except BaseException:
                        continue
                try:
                    for k in range(len(list(project.reports))):
                        try:
                            report_observation(project, k, outdir)
                        except Exception:
                            pass
                    probes += probe_client(project, rng, dense)
                except Exception as e:
                    outcomes.append("probe:" + type(e).__name__)
    finally:
        sh.uninstall()
    rep = sh.report()
    rep.update(native=have, outcomes=outcomes, probes=probes)
    return rep
