"""Validate MANIFEST.json and every evidence file against the schemas (run with python3-vt)."""
import glob, json, sys
import jsonschema
ok = True
man = json.load(open('/verif/MANIFEST.json'))
jsonschema.validate(man, json.load(open('/root/.vp/MANIFEST.schema.json')))
sch = json.load(open('/root/.vp/EVIDENCE.schema.json'))
for c in man['checks']:
    p = c['evidence_file']
    try:
        ev = json.load(open(p))
        jsonschema.validate(ev, sch)
        cov = ev['coverage']
        print('ok', p, ev['tier'], 'seed', ev['seed'], 'evals', cov['evaluations'], 'distinct', cov['distinct_nontrivial'], 'viol', ev.get('violations'), 'wall', ev['wall_s'])
    except Exception as e:
        ok = False
        print('BAD', p, str(e)[:300])
ids = {json.loads(l)['id'] for l in open('/verif/properties.jsonl')}
claimed = {c['property_id'] for c in man['checks']}
na = {x['property_id'] for x in man.get('not_applicable', [])}
print('claimed', sorted(claimed), 'n/a', len(na), 'unaccounted', sorted(ids - claimed - na), 'overlap', sorted(claimed & na))
sys.exit(0 if ok and not (ids - claimed - na) and not (claimed & na) else 1)
