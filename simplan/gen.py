"""Seeded workload: project texts, infeasible projects, and the byte corruptor.

The generator is workload, not oracle: no check needs to know what the right
schedule is.  Every function takes a random.Random and draws from nothing else.
"""

from __future__ import annotations

import glob
import os
from datetime import date, timedelta

REPO = os.environ.get("SIMPLAN_REPO", "/repo")

TZS = ["Asia/Tokyo", "America/New_York", "Europe/Berlin", "Australia/Sydney", "Etc/UTC"]
SPECIAL_STARTS = [
    "2024-02-26",  # leap day inside
    "2024-12-23",  # year end
    "2025-03-24",  # EU DST start
    "2025-10-20",  # EU DST end
    "2026-12-28",  # 53-week ISO year
    "2025-03-03",  # US DST start
]
DAYS = ["mon", "tue", "wed", "thu", "fri", "sat", "sun"]
REPORT_NAMES = ["aaa", "zzz", "out", "Overview", "sub/dir/rep", "a_first", "plan_auto_0000000000000000", "plan_auto", "zz_last", "tasks", "res", "00", "~x"]
TASK_COLS = ["id", "name", "start", "end", "effort", "duration", "priority", "complete", "resources", "status", "scheduling"]
RES_COLS = ["id", "name", "effort", "rate", "efficiency"]


def _pick(rng, seq):
    return seq[rng.randrange(len(seq))]


def _date(rng) -> date:
    if rng.random() < 0.25:
        y, m, d = map(int, _pick(rng, SPECIAL_STARTS).split("-"))
        return date(y, m, d)
    return date(2024, 1, 1) + timedelta(days=rng.randrange(0, 1090))


def _hours_spec(rng) -> str:
    kind = rng.randrange(7)
    if kind == 0:
        days = "mon - fri"
    elif kind == 1:
        days = "mon - sun"
    elif kind == 2:
        days = "mon, wed, fri"
    elif kind == 3:
        days = "tue - sat"
    elif kind == 4:
        days = "sat, sun"
    elif kind == 5:
        a = rng.randrange(7)
        days = DAYS[a]
    else:
        days = "mon - thu"
    k = rng.randrange(7)
    if k == 0:
        rng_s = "09:00 - 17:00"
    elif k == 1:
        rng_s = "08:00 - 12:00, 13:00 - 17:00"
    elif k == 2:
        rng_s = "22:00 - 06:00"
    elif k == 3:
        rng_s = "08:15 - 11:45, 13:15 - 16:30"
    elif k == 4:
        rng_s = "00:00 - 24:00" if rng.random() < 0.3 else "06:00 - 14:00"
    elif k == 5:
        rng_s = "14:00 - 22:00"
    else:
        h = rng.randrange(0, 20)
        rng_s = f"{h:02d}:{_pick(rng, ['00', '30', '15', '20', '10', '50'])} - {h + rng.randrange(2, 5):02d}:{_pick(rng, ['00', '00', '20', '40'])}"
    return f"{days} {rng_s}"


def _night_then_day(rng) -> list[str]:
    """Two working-hours lines: a night shift starting on day d that runs into day d+1, which itself has
    a day shift (the slot after midnight belongs to the previous day's interval only)."""
    d = 6 if rng.random() < 0.4 else rng.randrange(7)
    nxt = (d + 1) % 7
    night = _pick(rng, ["22:00 - 06:00", "20:00 - 04:00", "23:00 - 07:00", "18:00 - 02:30"])
    day = _pick(rng, ["09:00 - 17:00", "08:00 - 12:00, 13:00 - 17:00", "10:00 - 15:20"])
    return [f"{DAYS[d]} {night}", f"{DAYS[nxt]} {day}"]


class Proj:
    """Structured project from which text is rendered (so that variants can be made)."""

    def __init__(self):
        self.header: list[str] = []
        self.pid = "prj"
        self.pname = "Generated"
        self.start = date(2025, 1, 6)
        self.dur = "+4w"
        self.globals: list[str] = []
        self.shifts: list[str] = []
        self.resources: list[str] = []
        self.tasks: list[str] = []
        self.reports: list[str] = []
        self.macros: list[str] = []
        self.tags: set[str] = set()

    def text(self) -> str:
        out = []
        out += self.macros
        out.append(f'project {self.pid} "{self.pname}" {self.start.isoformat()} {self.dur} {{')
        out += ["  " + h for h in self.header]
        out.append("}")
        out += self.globals + self.shifts + self.resources + self.tasks + self.reports
        return "\n".join(out) + "\n"


def _render_task(rng, p: Proj, tid: str, path: list[str], leaf_ids: list[str], res_ids: list[str], depth: int, opts: dict, indent: str) -> list[str]:
    full = ".".join(path + [tid])
    lines = [f'{indent}task {tid} "{tid.upper()}" {{']
    ind = indent + "  "
    if depth < 2 and rng.random() < opts["p_container"]:
        n = rng.randrange(1, 4)
        if rng.random() < 0.15:
            lines.append(f"{ind}start {(p.start + timedelta(days=rng.randrange(0, 5))).isoformat()}")
        if opts.get("alap") and rng.random() < 0.3:
            lines.append(f"{ind}end {(p.start + timedelta(days=rng.randrange(8, 20))).isoformat()}")
            p.tags.add("container-end")
        for i in range(n):
            lines += _render_task(rng, p, f"{tid}{chr(97 + i)}", path + [tid], leaf_ids, res_ids, depth + 1, opts, ind)
        lines.append(f"{indent}}}")
        return lines
    # leaf
    kind = rng.random()
    unit_h = rng.random() < 0.7
    if kind < 0.65 and res_ids:
        amt = rng.randrange(1, 41) if unit_h else rng.randrange(1, 6)
        if rng.random() < opts.get("p_frac", 0.1):
            lines.append(f"{ind}effort {amt}.5{'h' if unit_h else 'd'}")
        elif rng.random() < 0.08:
            lines.append(f"{ind}effort {_pick(rng, ['0.25', '0.5', '0.75', '1.25', '1.5', '2.25', '0.1'])}h")  # sub-slot work
        else:
            lines.append(f"{ind}effort {amt}{'h' if unit_h else 'd'}")
        alloc = [_pick(rng, res_ids)]
        if len(res_ids) > 1 and rng.random() < 0.2:
            other = _pick(rng, res_ids)
            if other != alloc[0]:
                alloc.append(other)
        a = f"{ind}allocate {', '.join(alloc)}"
        if len(res_ids) > 1 and rng.random() < 0.2:
            alts = [x for x in dict.fromkeys(_pick(rng, res_ids) for _ in range(rng.randrange(1, 4))) if x not in alloc]
            if alts:
                a += f" {{ alternative {', '.join(alts)}{' persistent' if rng.random() < 0.5 else ''} }}"
        lines.append(a)
    elif kind < 0.8:
        lines.append(f"{ind}duration {rng.randrange(1, 72)}h" if unit_h else f"{ind}duration {rng.randrange(1, 10)}d")
    elif kind < 0.88:
        lines.append(f"{ind}length {rng.randrange(1, 40)}h" if unit_h else f"{ind}length {rng.randrange(1, 6)}d")
    elif kind < 0.96:
        lines.append(f"{ind}milestone")
    else:
        pass  # empty leaf
    if rng.random() < 0.2:
        d0 = p.start + timedelta(days=rng.randrange(0, 10))
        if rng.random() < 0.5:
            lines.append(f"{ind}start {d0.isoformat()}-{rng.randrange(0, 24):02d}:00")
        else:
            lines.append(f"{ind}start {d0.isoformat()}")
    if leaf_ids and rng.random() < opts["p_dep"]:
        n = 1 if rng.random() < 0.8 else 2
        deps = []
        for _ in range(n):
            tgt = _pick(rng, leaf_ids)
            ref = tgt
            # relative form when sibling
            tp = tgt.split(".")
            if tp[:-1] == path and rng.random() < 0.7:
                ref = "!" + tp[-1]
            o = []
            r = rng.random()
            if r < 0.25:
                o.append(f"gapduration {rng.randrange(1, 49)}h")
            elif r < 0.35:
                o.append(f"gaplength {rng.randrange(1, 17)}h")
            elif r < 0.40:
                o.append(f"maxgapduration {rng.randrange(1, 12)}h")
            if rng.random() < 0.12:
                o.append("onstart")
            elif rng.random() < 0.05:
                o.append("onend")
            deps.append(ref + (" { " + " ".join(o) + " }" if o else ""))
        kw = "depends" if rng.random() < 0.85 else "precedes"
        lines.append(f"{ind}{kw} {', '.join(dict.fromkeys(deps))}")
    if rng.random() < 0.25:
        lines.append(f"{ind}priority {_pick(rng, [1, 100, 250, 500, 750, 900, 1000])}")
    if opts.get("alap") and rng.random() < 0.4:
        lines.append(f"{ind}scheduling alap")
        if rng.random() < 0.7:
            lines.append(f"{ind}end {(p.start + timedelta(days=rng.randrange(5, 20))).isoformat()}-17:00")
    if opts.get("scen") and rng.random() < 0.25:
        lines.append(f"{ind}delayed:effort {rng.randrange(1, 30)}h" if kind < 0.65 else f"{ind}delayed:start {(p.start + timedelta(days=rng.randrange(1, 9))).isoformat()}")
    if rng.random() < 0.08 and res_ids:
        lines.append(f"{ind}limits {{ dailymax {rng.randrange(1, 7)}h }}")
    if rng.random() < 0.05:
        lines.append(f'{ind}note "n {tid}"')
    if rng.random() < 0.05:
        lines.append(f"{ind}complete {rng.randrange(0, 101)}")
    lines.append(f"{indent}}}")
    leaf_ids.append(full)
    return lines


def _render_report(rng, p: Proj, idx: int, names_pool: list[str], depth: int = 0, indent: str = "") -> list[str]:
    kind = rng.random()
    name = _pick(rng, names_pool)
    rid = f"r{idx}_{rng.randrange(1000)}"
    fm = _pick(rng, ["json", "csv", "json, csv", "csv, json", "json", "csv", None])
    ind = indent + "  "
    if kind < 0.6:
        head = _pick(rng, [f'taskreport {rid} "{name}"', f'taskreport "{name}"'])
        lines = [f"{indent}{head} {{"]
        if fm:
            lines.append(f"{ind}formats {fm}")
        ncol = rng.randrange(1, 5)
        cols = list(dict.fromkeys(_pick(rng, TASK_COLS) for _ in range(ncol)))
        lines.append(f"{ind}columns {', '.join(cols)}")
        if rng.random() < 0.4:
            lines.append(f'{ind}timeformat "{_pick(rng, ["%Y-%m-%d-%H:%M", "%Y-%m-%d %H:%M", "%d.%m.%Y", "%Y-%m-%d"])}"')
        if rng.random() < 0.2:
            lines.append(f"{ind}leaftasksonly {_pick(rng, ['true', 'false'])}")
        if rng.random() < 0.15:
            lines.append(f"{ind}sorttasks {_pick(rng, ['id.up', 'id.down', 'start.up', 'name.down', 'tree.up'])}")
        if rng.random() < 0.15:
            lines.append(f"{ind}taskroot t{rng.randrange(0, 3)}")
        if rng.random() < 0.1:
            lines.append(f"{ind}hidetask {_pick(rng, ['@none', '@all', '~isleaf()'])}")
        if "scen" in p.tags and rng.random() < 0.3:
            lines.append(f"{ind}scenarios {_pick(rng, ['plan', 'delayed', 'plan, delayed'])}")
        if rng.random() < 0.1:
            lines.append(f'{ind}caption "cap {idx}"')
        lines.append(f"{indent}}}")
    elif kind < 0.8:
        lines = [f'{indent}resourcereport {rid} "{name}" {{']
        fm = None  # the grammar has no formats for resource reports; JSON is the default
        cols = list(dict.fromkeys(_pick(rng, RES_COLS) for _ in range(rng.randrange(1, 4))))
        lines.append(f"{ind}columns {', '.join(cols)}")
        lines.append(f"{indent}}}")
    else:
        lines = [f'{indent}textreport {rid} "{name}" {{']
        if fm and rng.random() < 0.5:
            lines.append(f"{ind}formats {fm}")
        lines.append(f'{ind}header "Header {idx}"')
        if depth == 0 and rng.random() < 0.6:
            lines += _render_report(rng, p, idx * 10 + 1, names_pool, 1, ind)
        lines.append(f"{indent}}}")
    if fm is None or "json" in fm:
        p.tags.add("has-own-json-report")
    if fm and "csv" in fm:
        p.tags.add("has-own-csv-report")
    return lines


def gen_project(rng, reports: str = "mixed", size: str = "small") -> dict:
    """reports: 'none' | 'mixed' | 'always'."""
    p = Proj()
    p.pid = _pick(rng, ["prj", "acme", "P1", "demo_x"])
    p.start = _date(rng)
    p.dur = _pick(rng, ["+1w", "+2w", "+3w", "+4w", "+6w", "+2m", "+10d", "+3m"] if size == "small" else ["+2m", "+3m", "+6m"])
    if rng.random() < 0.75:
        p.header.append(f'timezone "{_pick(rng, TZS) if rng.random() < 0.3 else "Etc/UTC"}"')
    if rng.random() < 0.5:
        p.header.append(f'timeformat "{_pick(rng, ["%Y-%m-%d %H:%M", "%Y-%m-%d", "%d/%m/%Y %H:%M"])}"')
    if rng.random() < 0.3:
        res = _pick(rng, ["5min", "15min", "30min", "60min", "10min", "1h"])
        if p.dur in ("+2m", "+3m", "+6m") and res in ("5min", "10min"):
            res = "30min"
        p.header.append(f"timingresolution {res}")
        p.tags.add("resolution")
    scen = rng.random() < 0.2
    if scen:
        p.header.append('scenario plan "Plan" {')
        p.header.append('  scenario delayed "Delayed"' + (" {}" if rng.random() < 0.5 else ""))
        p.header.append("}")
        p.tags.add("scen")
    if rng.random() < 0.85:
        p.header.append(f"now {p.start.isoformat()}")
    else:
        p.tags.add("no-now")
    alap_proj = rng.random() < 0.06
    if alap_proj:
        p.header.append("scheduling alap")
    if rng.random() < 0.15:
        p.header.append(f"workinghours {_hours_spec(rng)}")
    if rng.random() < 0.2:
        v0 = p.start + timedelta(days=rng.randrange(0, 14))
        if rng.random() < 0.5:
            p.globals.append(f'vacation "Hol" {v0.isoformat()}')
        else:
            p.globals.append(f'vacation "Hol" {v0.isoformat()} - {(v0 + timedelta(days=rng.randrange(1, 4))).isoformat()}')
    if rng.random() < 0.1:
        p.globals.append(f"leaves holiday \"H\" {(p.start + timedelta(days=rng.randrange(0, 10))).isoformat()}")
    # macros
    use_macro = rng.random() < 0.15
    if use_macro:
        p.macros.append("macro alloc0 [\n  allocate r0 # the first one\n]")
        p.macros.append("macro allocdev [ allocate $1 ]")
        p.tags.add("macros")
    # shifts
    shift_ids = []
    for i in range(rng.randrange(0, 3)):
        sid = f"sh{i}"
        shift_ids.append(sid)
        if rng.random() < 0.2:
            a, b = _night_then_day(rng)
            p.shifts.append(f'shift {sid} "{sid}" {{\n  workinghours {a}\n  workinghours {b}\n}}')
            continue
        p.shifts.append(f'shift {sid} "{sid}" {{\n  workinghours {_hours_spec(rng)}\n' + (f"  workinghours {_hours_spec(rng)}\n" if rng.random() < 0.2 else "") + "}")
    # resources
    res_ids = []
    nres = rng.randrange(1, 5)
    group = rng.random() < 0.35
    rl = []
    for i in range(nres):
        rid = f"r{i}"
        res_ids.append(rid)
        body = []
        r = rng.random()
        if shift_ids and r < 0.45:
            body.append(f"workinghours {_pick(rng, shift_ids)}")
        elif r < 0.6:
            body.append(f"workinghours {_hours_spec(rng)}")
        if rng.random() < 0.2:
            body.append(f"efficiency {_pick(rng, ['0.5', '0.8', '1.0', '1.5', '2.0', '0.25'])}")
        if rng.random() < 0.15:
            body.append(f'timezone "{_pick(rng, TZS)}"')
        if rng.random() < 0.2:
            lim = []
            if rng.random() < 0.7:
                lim.append(f"dailymax {rng.randrange(1, 9)}h")
            if rng.random() < 0.4:
                lim.append(f"weeklymax {rng.randrange(4, 41)}h")
            if lim:
                body.append("limits { " + " ".join(lim) + " }")
        if rng.random() < 0.15:
            v0 = p.start + timedelta(days=rng.randrange(0, 12))
            body.append(f"vacation {v0.isoformat()} - {(v0 + timedelta(days=rng.randrange(1, 5))).isoformat()}")
        if rng.random() < 0.1:
            v0 = p.start + timedelta(days=rng.randrange(0, 12))
            body.append(f"leaves {_pick(rng, ['annual', 'sick', 'holiday'])} {v0.isoformat()} - {(v0 + timedelta(days=rng.randrange(1, 3))).isoformat()}")
        if rng.random() < 0.08:
            body.append(f"rate {rng.randrange(100, 900)}")
        rl.append(f'resource {rid} "{rid.upper()}" {{' + ("\n" + "\n".join("  " + b for b in body) + "\n" if body else " ") + "}")
    if group:
        glim = f"  limits {{ dailymax {rng.randrange(4, 12)}h }}\n" if rng.random() < 0.3 else ""
        p.resources.append('resource team "Team" {\n' + glim + "\n".join("  " + ln for r in rl for ln in r.split("\n")) + "\n}")
        if rng.random() < 0.15:
            res_ids.append("team")
            p.tags.add("group-alloc")
    else:
        p.resources += rl
    # tasks
    opts = {
        "p_container": _pick(rng, [0.0, 0.2, 0.4]),
        "p_dep": _pick(rng, [0.0, 0.3, 0.6, 0.9]),
        "alap": alap_proj or rng.random() < 0.2,
        "scen": scen,
        "p_frac": 0.1,
    }
    leaf_ids: list[str] = []
    ntop = rng.randrange(1, 6) if size == "small" else rng.randrange(4, 10)
    for i in range(ntop):
        lines = _render_task(rng, p, f"t{i}", [], leaf_ids, res_ids, 0, opts, "")
        if use_macro:
            lines = [ln.replace("allocate r0", _pick(rng, ["${allocdev r0}", "${alloc0}"])) if ln.strip() == "allocate r0" and rng.random() < 0.7 else ln for ln in lines]
        p.tasks.append("\n".join(lines))
    if rng.random() < 0.15:
        # fail-over pattern: a busy primary and several alternatives that differ in efficiency and availability
        s0 = p.start + timedelta(days=rng.randrange(0, 4))
        p.resources.append('resource fx "FX" {}\nresource fy "FY" { efficiency 0.5 }\nresource fz "FZ" {\n  efficiency 2.0\n  vacation %s - %s\n}' % (s0.isoformat(), (s0 + timedelta(days=1)).isoformat()))
        p.tasks.append(f'task foa "FOA" {{\n  effort {rng.randrange(8, 30)}h\n  allocate fx\n  start {s0.isoformat()}\n  priority 900\n}}')
        alts = _pick(rng, ["fy, fz", "fz, fy", "fy, fz, r0", "fz, fy"])
        p.tasks.append(f'task fob "FOB" {{\n  effort {rng.randrange(4, 20)}h\n  allocate fx {{ alternative {alts} }}\n  start {s0.isoformat()}\n}}')
        p.tasks.append('task foc "FOC" {\n  effort 3h\n  allocate fy\n  depends fob\n}')
        p.tags.add("failover")
    if rng.random() < 0.15:
        # weekly quota pattern: a long task on a resource with a weekly (and sometimes daily) limit, so that limit
        # periods are queried across several week boundaries
        p.resources.append('resource wq "WQ" {\n  limits { weeklymax %dh%s }\n}' % (_pick(rng, [8, 16, 20, 24]), _pick(rng, ["", " dailymax 6h"])))
        p.tasks.append(f'task wqa "WQA" {{\n  effort {_pick(rng, [30, 40, 60])}h\n  allocate wq\n}}\ntask wqb "WQB" {{\n  effort 8h\n  allocate wq\n  depends wqa\n}}')
        if p.dur in ("+1w", "+2w", "+10d"):
            p.dur = "+6w"
        p.tags.add("weekly-quota")
    if rng.random() < 0.1 and res_ids:
        # sub-slot chain: a predecessor that ends in the middle of a slot, successors needing less than a slot
        r = res_ids[0]
        a, b, c = _pick(rng, ["1.5", "2.25", "0.5", "3.75"]), _pick(rng, ["0.25", "0.1", "0.5", "0.75"]), _pick(rng, ["0.5", "0.25", "1.25"])
        p.tasks.append(f'task ssa "SSA" {{\n  effort {a}h\n  allocate {r}\n}}\ntask ssb "SSB" {{\n  effort {b}h\n  allocate {r}\n  depends ssa\n}}\ntask ssc "SSC" {{\n  effort {c}h\n  allocate {r}\n  depends ssb\n}}')
        p.tags.add("subslot")
    if opts["alap"]:
        p.tags.add("alap")
    # comments
    if rng.random() < 0.3:
        p.globals.append("# shell comment " + "x" * rng.randrange(0, 30))
    if rng.random() < 0.1:
        p.globals.append("/* c comment */")
    # reports
    want = {"none": 0.0, "mixed": 0.55, "always": 1.0}[reports]
    if rng.random() < want:
        pool = [_pick(rng, REPORT_NAMES) for _ in range(3)]
        for i in range(rng.randrange(1, 4)):
            p.reports.append("\n".join(_render_report(rng, p, i, pool)))
    text = p.text()
    if "${now}" in text or "${today}" in text:
        p.tags.add("uses-clock-macro")
    return {"text": text, "tags": sorted(p.tags), "kind": "gen"}


def gen_clock_macro_project(rng) -> dict:
    d = gen_project(rng, reports="none")
    t = d["text"]
    t = t.replace("}\n", "}\n", 1)
    add = 'task clk "Clock" {\n  start ${today}\n  duration 2h\n}\n' if rng.random() < 0.5 else 'task clk "Clock" {\n  start ${now}\n  milestone\n}\n'
    d["text"] = t + add
    d["tags"] = sorted(set(d["tags"]) | {"uses-clock-macro"})
    return d


# ------------------------------------------------------------------ infeasible


def gen_infeasible(rng) -> dict:
    """Grammatical projects that cannot be (fully) scheduled, or stress the horizon."""
    base = gen_project(rng, reports="none")
    start = date(2025, 1, 6) + timedelta(days=7 * rng.randrange(0, 50))
    s = start.isoformat()
    hdr = f'project inf "Inf" {s} +{_pick(rng, ["1w", "2w", "3d", "1m"])} {{\n  timezone "Etc/UTC"\n  now {s}\n'
    if rng.random() < 0.3:
        hdr += f"  timingresolution {_pick(rng, ['15min', '30min', '60min'])}\n"
    hdr += "}\n"
    res = 'resource r0 "R0" {}\nresource r1 "R1" { workinghours sat 09:00 - 09:00 }\nresource r2 "R2" { limits { dailymax 1h } }\n'
    kind = rng.randrange(30)
    far = (start + timedelta(days=rng.randrange(30, 4000))).isoformat()
    before = (start - timedelta(days=rng.randrange(1, 400))).isoformat()
    t = ""
    if kind == 0:  # cycle
        t = 'task a "A" { effort 4h allocate r0 depends b }\ntask b "B" { effort 4h allocate r0 depends a }\n'
    elif kind == 1:  # self dependency
        t = 'task a "A" { effort 4h allocate r0 depends a }\n'
    elif kind == 2:  # pinned start beyond the end
        t = f'task a "A" {{ effort 4h allocate r0 start {far} }}\ntask b "B" {{ effort 2h allocate r0 depends a }}\n'
    elif kind == 3:  # pinned start before project start
        t = f'task a "A" {{ effort 4h allocate r0 start {before} }}\n'
        if rng.random() < 0.6:
            # ... or centuries before it (a mistyped year), with successors that count working time from there
            long_ago = start.replace(year=rng.choice([1025, 1625, 1925, 1990])).isoformat() if not (start.month == 2 and start.day == 29) else before
            t = f'task a "A" {{ start {long_ago} milestone }}\ntask b "B" {{ milestone depends a {{ {_pick(rng, ["gaplength", "gapduration"])} {rng.randrange(1, 60)}d }} }}\ntask c "C" {{ effort 3h allocate r0 depends a {{ gaplength {rng.randrange(1, 30)}h }} }}\n'
    elif kind == 4:  # gap past the end
        t = f'task a "A" {{ effort 4h allocate r0 }}\ntask b "B" {{ effort 2h allocate r0 depends a {{ gapduration {rng.randrange(200, 3000)}h }} }}\n'
    elif kind == 5:  # gaplength past end
        t = f'task a "A" {{ effort 4h allocate r0 }}\ntask b "B" {{ effort 2h allocate r0 depends a {{ gaplength {rng.randrange(40, 900)}h }} }}\n'
    elif kind == 6:  # resource never works
        t = 'task a "A" { effort 4h allocate r1 }\ntask b "B" { effort 1h allocate r0 depends a }\n'
    elif kind == 7:  # zero effort
        t = 'task a "A" { effort 0h allocate r0 }\ntask b "B" { duration 0h }\ntask c "C" { length 0h }\n'
    elif kind == 8:  # huge effort
        t = f'task a "A" {{ effort {rng.randrange(200, 5000)}h allocate r0 }}\n'
    elif kind == 9:  # huge effort on limited resource
        t = f'task a "A" {{ effort {rng.randrange(20, 200)}h allocate r2 }}\n'
    elif kind == 10:  # ALAP with end before start / outside
        t = f'task a "A" {{ effort 8h allocate r0 scheduling alap end {_pick(rng, [before, far, s])} }}\n'
    elif kind == 11:  # alap chain without anchor
        t = 'task a "A" { effort 8h allocate r0 scheduling alap }\ntask b "B" { effort 8h allocate r0 scheduling alap depends a }\n'
    elif kind == 12:  # end before start
        t = f'task a "A" {{ start {far} end {s} }}\ntask b "B" {{ effort 3h allocate r0 start {s} end {before} }}\n'
    elif kind == 13:  # dependency on container / container cycle
        t = 'task c "C" {\n  task x "X" { effort 2h allocate r0 depends c }\n  task y "Y" { effort 2h allocate r0 depends !x }\n}\n'
    elif kind == 14:  # duration / length beyond end
        t = f'task a "A" {{ duration {rng.randrange(500, 9000)}h }}\ntask b "B" {{ length {rng.randrange(200, 3000)}h }}\n'
    elif kind == 15:  # unallocated effort, unknown refs
        t = 'task a "A" { effort 5h }\ntask b "B" { effort 5h allocate r0 depends !a }\n'
    elif kind == 16:  # dependency cycle upstream of an ALAP task with a fixed deadline
        dl = (start + timedelta(days=rng.randrange(2, 12))).isoformat()
        t = f'task a "A" {{ effort 4h allocate r0 depends b }}\ntask b "B" {{ effort 4h allocate r0 depends a }}\ntask c "C" {{ effort 4h allocate r0 depends {_pick(rng, ["a", "b", "a, b"])} scheduling alap end {dl}-17:00 }}\n'
    elif kind == 17:  # self-dependency inside an ALAP chain (one flipped digit in a reference)
        dl = (start + timedelta(days=rng.randrange(2, 12))).isoformat()
        t = f'task s "S" {{\n  task s1 "S1" {{ effort 4h allocate r0 }}\n  task s2 "S2" {{ effort 4h allocate r0 depends !s{_pick(rng, [2, 2, 3])} }}\n  task s3 "S3" {{ effort 4h allocate r0 depends !s2 scheduling alap end {dl}-17:00 }}\n}}\n'
    elif kind == 18:  # ALAP project, container deadline, cycle among the children
        hdr = hdr.replace("}\n", "  scheduling alap\n}\n", 1)
        dl = (start + timedelta(days=rng.randrange(3, 12))).isoformat()
        t = f'task k "K" {{\n  end {dl}\n  task x "X" {{ effort 3h allocate r0 depends !z }}\n  task y "Y" {{ effort 3h allocate r0 depends !x }}\n  task z "Z" {{ effort 3h allocate r0 depends !y }}\n  task w "W" {{ effort 2h allocate r0 depends !{_pick(rng, ["x", "y", "z"])} }}\n}}\n'
    elif kind == 19:  # long dependency chain, forward or ending in an ALAP deadline
        n = rng.randrange(20, 120)
        alap = rng.random() < 0.5
        parts = ['task c0 "C0" { effort 1h allocate r0 }']
        for i in range(1, n):
            parts.append(f'task c{i} "C{i}" {{ effort 1h allocate r0 depends c{i - 1} }}')
        if alap:
            parts[-1] = parts[-1][:-2] + f" scheduling alap end {(start + timedelta(days=60)).isoformat()} }}"
            hdr = hdr.replace("+1w", "+4m").replace("+2w", "+4m").replace("+3d", "+4m").replace("+1m", "+4m")
        t = "\n".join(parts) + "\n"
    elif kind == 20:  # precedes cycles and mutual precedes/depends
        t = 'task a "A" { effort 2h allocate r0 precedes b }\ntask b "B" { effort 2h allocate r0 precedes a }\ntask c "C" { effort 2h allocate r0 depends a precedes a }\n'
    elif kind == 21:  # macro that calls itself and carries other content (one typo in a macro name)
        hdr = 'macro more [ note "x" ${more} ]\n' + hdr
        t = 'task a "A" { effort 4h allocate r0 ${more} }\n'
    elif kind == 22:  # mutually recursive macros
        hdr = "macro ping [ ${pong} ]\nmacro pong [ priority 500 ${ping} ]\n" + hdr
        t = 'task a "A" { effort 4h allocate r0 ${ping} }\n'
    elif kind == 25:  # header without '+duration' (optional in the grammar): the project has no end
        hdr = hdr.split("\n", 1)[0].split(" +")[0] + " {\n" + hdr.split("\n", 1)[1]
        t = _pick(rng, ['task a "A" { effort 4h allocate r0 }\n', 'task m "M" { milestone }\n', 'task a "A" { effort 4h allocate r2 }\n'])
    elif kind == 26:  # only zero-effort tasks fail: milestones / plain tasks whose dependency bound lies beyond the end
        gap = _pick(rng, ["gapduration 1y", "gapduration 14m", f"gaplength {rng.randrange(30, 90)}d", "gapduration 400d"])
        t = f'task a "A" {{ start {s} milestone }}\ntask b "B" {{ {_pick(rng, ["milestone", ""])} depends a {{ {gap} }} }}\n'
        if rng.random() < 0.5:
            t += 'task c "C" { effort 2h allocate r0 depends b }\n'
    elif kind in (27, 28, 29):  # never-available resources: on leave / on vacation for the whole window (and beyond)
        lo = (start - timedelta(days=rng.randrange(0, 30))).isoformat()
        hi = (start + timedelta(days=rng.randrange(40, 400))).isoformat()
        if kind == 27:
            res += f'resource gone "Gone" {{ {_pick(rng, ["vacation", "leaves annual", "leaves sick"])} {lo} - {hi} }}\n'
            t = _pick(rng, [
                'task a "A" { effort 4h allocate gone }\ntask b "B" { effort 1h allocate r0 depends a }\n',
                'task a "A" { effort 4h allocate r0, gone }\n',
                'task a "A" { effort 2d allocate gone { alternative r0 } }\ntask c "C" { effort 3h allocate gone }\n',
                'task a "A" { effort 4h allocate r0 depends b }\ntask b "B" { effort 4h allocate r0 depends a }\n',  # idle gone resource + a cycle
            ])
        elif kind == 28:  # the whole project window is a global vacation
            hdr += f'vacation "Shutdown" {lo} - {hi}\n'
            t = 'task a "A" { effort 4h allocate r0 }\ntask b "B" { duration 2d depends a }\ntask m "M" { milestone depends a }\n'
        else:  # a team whose members are all away, an ALAP deadline on top
            res += f'resource team "Team" {{\n  resource g1 "G1" {{ vacation {lo} - {hi} }}\n  resource g2 "G2" {{ leaves annual {lo} - {hi} }}\n}}\n'
            t = f'task a "A" {{ effort 6h allocate team }}\ntask z "Z" {{ scheduling alap end {(start + timedelta(days=2)).isoformat()} effort 3h allocate g1 }}\n'
    elif kind == 23:  # macro that calls itself twice
        hdr = "macro d [ ${d} ${d} ]\n" + hdr
        t = 'task a "A" { effort 4h allocate r0 ${d} }\n'
    else:  # degenerate timing resolution (one flipped digit: 60min -> 00min)
        hdr = hdr.replace("}\n", f"  timingresolution {_pick(rng, ['00min', '0min', '0h', '0.0h'])}\n}}\n", 1) if "timingresolution" not in hdr else hdr.replace("15min", "00min").replace("30min", "00min").replace("60min", "00min")
        t = 'task a "A" { effort 4h allocate r0 }\n'
    # Mix with a feasible generated project half of the time so the loop has other work
    if rng.random() < 0.4:
        extra = "\n".join(x for x in base["text"].split("\n") if x.startswith("task ") and x.endswith("}"))
        t += extra + "\n"
    return {"text": hdr + res + t, "tags": ["infeasible", f"inf{kind}"], "kind": "infeasible"}


# ------------------------------------------------------------------ fixtures


def fixtures(max_bytes: int = 6000) -> list[dict]:
    out = []
    for path in sorted(glob.glob(os.path.join(REPO, "tests", "data", "*.tjp")) + glob.glob(os.path.join(REPO, "examples", "*.tjp"))):
        try:
            with open(path, encoding="utf-8") as f:
                txt = f.read()
        except OSError:
            continue
        if len(txt) > max_bytes:
            continue
        tags = ["fixture"]
        if "formats" in txt and "json" in txt:
            tags.append("has-own-json-report")
        if "formats" in txt and "csv" in txt:
            tags.append("has-own-csv-report")
        out.append({"text": txt, "tags": tags, "kind": "fixture:" + os.path.basename(path)})
    return out


# ------------------------------------------------------------------ corruptor

_GARBAGE = ["\x00", "\xff", "é", " ", "}{", '"', "'", "${", "]", "[", "-8<-", "/*", "\t", "\r"]


def add_inheritance(rng, text: str) -> str:
    """Give container tasks attributes their children inherit (priority, allocate, start): the attribute-inheritance
    machinery is process-global state in the engine, so histories must contain projects that depend on it."""
    import re as _re

    lines = text.split("\n")
    res = _re.findall(r"^\s*resource (\w+) ", text, _re.M)
    m = _re.search(r"^project \S+ \"[^\"]*\" (\d{4})-(\d{2})-(\d{2})", text, _re.M)
    out = []
    for i, ln in enumerate(lines):
        out.append(ln)
        st = ln.strip()
        nxt = lines[i + 1].strip() if i + 1 < len(lines) else ""
        if st.startswith("task ") and st.endswith("{") and (nxt.startswith("task ") or nxt.startswith("start ") or nxt.startswith("end ")) and rng.random() < 0.7:
            ind = ln[: len(ln) - len(ln.lstrip())] + "  "
            out.append(f"{ind}priority {rng.randrange(1, 10) * 100}")
            if res and rng.random() < 0.5:
                out.append(f"{ind}allocate {_pick(rng, res)}")
            if m and not nxt.startswith("start ") and rng.random() < 0.3:
                try:
                    d0 = date(int(m.group(1)), int(m.group(2)), int(m.group(3))) + timedelta(days=rng.randrange(0, 5))
                    out.append(f"{ind}start {d0.isoformat()}")
                except ValueError:
                    pass
    return "\n".join(out)


def add_macros(rng, text: str) -> str:
    """Rewrite a generated project so that it defines and uses macros: a one-line allocation macro substituted
    for some `allocate r` lines, and a multi-line task macro with arguments called one to three times at top level.
    The definitions go right after the project header or (one of them, sometimes) to the end of the file."""
    import re as _re

    lines = text.split("\n")
    if "}" not in lines:
        return text
    res = _re.findall(r"^resource (\w+) ", text, _re.M)
    if not res:
        return text
    r = _pick(rng, res)
    defs = [f"macro alloc_{r} [ allocate {r} ]"]
    out = []
    for ln in lines:
        if ln.strip() == f"allocate {r}" and rng.random() < 0.7:
            out.append(ln[: len(ln) - len(ln.lstrip())] + "${alloc_" + r + "}")
        else:
            out.append(ln)
    lines = out
    calls = []
    if rng.random() < 0.7:
        body = ["macro mk_task [", '  task $1 "$2" {', "    effort $3d", f"    allocate {r}"]
        if rng.random() < 0.4:
            body.append("    # generated by macro [v1]" if rng.random() < 0.5 else "    priority 6$3" + "0")
        body += ["  }", "]"]
        defs.append("\n".join(body))
        for i in range(rng.randrange(1, 4)):
            calls.append("${mk_task mx%d Extra%d %d}" % (i, i, rng.randrange(1, 4)))
    hc = lines.index("}")
    tail = []
    if len(defs) > 1 and rng.random() < 0.3:
        tail = [defs.pop(rng.randrange(len(defs)))]
    lines = lines[: hc + 1] + defs + lines[hc + 1 :] + calls + tail
    return "\n".join(lines)


def corrupt(rng, text: str, n_edits: int | None = None) -> tuple[str, list]:
    """The `bytes` fault: 1-3 seeded edits modelling a torn or bit-rotted stored file."""
    if n_edits is None:
        n_edits = 1 + (rng.random() < 0.35) + (rng.random() < 0.15)
    edits = []
    for _ in range(n_edits):
        if not text:
            break
        k = rng.randrange(12)
        n = len(text)
        if k == 0:  # digit flip
            idx = [i for i, c in enumerate(text) if c.isdigit()]
            if idx:
                i = _pick(rng, idx)
                c = str(rng.randrange(10))
                text = text[:i] + c + text[i + 1 :]
                edits.append(["digit", i, c])
                continue
            k = 1
        if k == 1:  # truncation (torn write)
            i = rng.randrange(n)
            text = text[:i]
            edits.append(["trunc", i])
        elif k == 2:  # drop a byte
            i = rng.randrange(n)
            text = text[:i] + text[i + 1 :]
            edits.append(["drop", i])
        elif k == 3:  # bit flip in one char
            i = rng.randrange(n)
            c = chr((ord(text[i]) ^ (1 << rng.randrange(7))) & 0x7F)
            text = text[:i] + c + text[i + 1 :]
            edits.append(["flip", i, ord(c)])
        elif k == 4:  # insert garbage
            i = rng.randrange(n + 1)
            g = _pick(rng, _GARBAGE)
            text = text[:i] + g + text[i:]
            edits.append(["ins", i, g])
        elif k == 5:  # delete a line
            lines = text.split("\n")
            i = rng.randrange(len(lines))
            edits.append(["delline", i])
            del lines[i]
            text = "\n".join(lines)
        elif k == 6:  # duplicate a line
            lines = text.split("\n")
            i = rng.randrange(len(lines))
            lines.insert(i, lines[i])
            edits.append(["dupline", i])
            text = "\n".join(lines)
        elif k == 7:  # swap two lines
            lines = text.split("\n")
            if len(lines) > 1:
                i = rng.randrange(len(lines))
                j = rng.randrange(len(lines))
                lines[i], lines[j] = lines[j], lines[i]
                edits.append(["swap", i, j])
                text = "\n".join(lines)
        elif k == 8:  # drop one brace
            idx = [i for i, c in enumerate(text) if c in "{}[]"]  # (brackets delimit macro bodies)
            if idx:
                i = _pick(rng, idx)
                edits.append(["brace" if text[i] in "{}" else "bracket", i])
                text = text[:i] + text[i + 1 :]
        elif k == 9:  # duplicate a block of bytes (replayed write)
            i = rng.randrange(n)
            ln = rng.randrange(1, min(200, n - i) + 1)
            text = text[: i + ln] + text[i : i + ln] + text[i + ln :]
            edits.append(["dupblock", i, ln])
        elif k == 10:  # block of zeros / lost block
            i = rng.randrange(n)
            ln = rng.randrange(1, min(64, n - i) + 1)
            fill = "\x00" * ln if rng.random() < 0.3 else ""
            text = text[:i] + fill + text[i + ln :]
            edits.append(["lost", i, ln, bool(fill)])
        elif k == 11 and rng.random() < 0.6:  # a reference now names another task (flipped character in an id)
            import re as _re

            ids = list(dict.fromkeys(_re.findall(r"task (\w+) ", text)))
            refs = [m for m in _re.finditer(r"(depends|precedes) ([!.\w]+)", text)]
            if ids and refs:
                m = _pick(rng, refs)
                old_ref = m.group(2)
                lead = old_ref[: len(old_ref) - len(old_ref.lstrip("!"))]
                new_ref = lead + _pick(rng, ids)
                text = text[: m.start(2)] + new_ref + text[m.end(2) :]
                edits.append(["reref", m.start(2), new_ref])
        else:  # number magnitude change
            idx = [i for i, c in enumerate(text) if c.isdigit()]
            if idx:
                i = _pick(rng, idx)
                ins = _pick(rng, ["0", "00", "9", "-", "."])
                text = text[:i] + ins + text[i:]
                edits.append(["mag", i, ins])
    return text, edits


# ------------------------------------------------------------------ variants


def variant(rng, text: str, prefer: str | None = None) -> str:
    """A sibling of a project: same header (dates, resolution), one or two small semantic edits.
    Processing variants of one project in one interpreter is the natural history for anything keyed on
    project-level values."""
    import re

    lines = text.split("\n")
    for _ in range(1 + (rng.random() < 0.4)):
        k = rng.randrange(9)
        if prefer == "calendar":  # same project, different calendar: vacation added / removed, start moved by a few days
            k = _pick(rng, [0, 0, 1, 8])
        m = re.search(r"project\s+\w+\s+\"[^\"]*\"\s+(\d{4})-(\d{2})-(\d{2})", text)
        try:
            base = date(int(m.group(1)), int(m.group(2)), int(m.group(3))) if m else date(2025, 1, 6)
        except ValueError:  # the source text is itself a corrupted variant with an impossible date
            base = date(2025, 1, 6)
        try:
            close = next(i for i, ln in enumerate(lines) if ln == "}")  # end of the project header (unindented brace)
        except StopIteration:
            return text
        if k == 0:  # add a global vacation
            v0 = base + timedelta(days=rng.randrange(0, 12))
            lines.insert(close + 1, f'vacation "V{rng.randrange(100)}" {v0.isoformat()} - {(v0 + timedelta(days=rng.randrange(1, 4))).isoformat()}')
        elif k == 1:  # remove a global vacation / leaves line
            idx = [i for i, ln in enumerate(lines) if ln.startswith("vacation ") or ln.startswith("leaves ")]
            if idx:
                del lines[_pick(rng, idx)]
        elif k == 2:  # change one effort / duration / length amount
            idx = [i for i, ln in enumerate(lines) if re.match(r"\s*(effort|duration|length) \d+", ln)]
            if idx:
                i = _pick(rng, idx)
                lines[i] = re.sub(r"\d+", str(rng.randrange(1, 40)), lines[i], count=1)
        elif k == 3:  # drop a dependency line
            idx = [i for i, ln in enumerate(lines) if ln.strip().startswith(("depends ", "precedes "))]
            if idx:
                del lines[_pick(rng, idx)]
        elif k == 4:  # add a task at the end using the default calendar
            lines.append(f'task vx{rng.randrange(100)} "VX" {{\n  {_pick(rng, ["duration", "length"])} {rng.randrange(2, 30)}h\n  start {(base + timedelta(days=rng.randrange(0, 6))).isoformat()}\n}}')
        elif k == 5:  # change a resource attribute
            idx = [i for i, ln in enumerate(lines) if ln.strip().startswith(("efficiency ", "limits {"))]
            if idx:
                del lines[_pick(rng, idx)]
        elif k == 8:  # the same project starting a few days later (another weekday): header start and 'now' move
            if m:
                nb = base + timedelta(days=rng.randrange(1, 7))
                for i, ln in enumerate(lines):
                    if ln.startswith("project ") and base.isoformat() in ln:
                        lines[i] = ln.replace(base.isoformat(), nb.isoformat(), 1)
                    elif ln.strip().startswith("now ") and base.isoformat() in ln:
                        lines[i] = ln.replace(base.isoformat(), nb.isoformat(), 1)
        elif k == 7:  # drop a macro definition or the 'now' attribute: the sibling still refers to it
            idx = [i for i, ln in enumerate(lines) if ln.startswith("macro ") and ln.rstrip().endswith("]")]
            if idx:
                del lines[_pick(rng, idx)]
            else:
                idx = [i for i, ln in enumerate(lines) if ln.strip().startswith("now ")]
                if idx:
                    del lines[idx[0]]
        else:  # change a priority / add one
            idx = [i for i, ln in enumerate(lines) if re.match(r"\s*(effort) \d+", ln)]
            if idx:
                i = _pick(rng, idx)
                ind = lines[i][: len(lines[i]) - len(lines[i].lstrip())]
                lines.insert(i + 1, f"{ind}priority {_pick(rng, [1, 200, 800, 1000])}")
    return "\n".join(lines)


# ------------------------------------------------------------------ DST-gap projects (for the TZ knob)

DST_GAPS = {  # zone -> (date of the spring-forward day, first skipped local hour)
    "America/New_York": ("2025-03-09", 2),
    "America/Havana": ("2025-03-09", 0),
    "Europe/Berlin": ("2025-03-30", 2),
    "Australia/Lord_Howe": ("2025-10-05", 2),
}


def gen_dst_project(rng) -> dict:
    """A project whose task boundaries fall on every hour around a zone's skipped hour; output must not depend on
    the TZ of the process, so the scenario runs it under exactly that zone."""
    zone = _pick(rng, sorted(DST_GAPS))
    day, hour = DST_GAPS[zone]
    y, m, d = map(int, day.split("-"))
    d0 = date(y, m, d)
    start = d0 - timedelta(days=rng.randrange(1, 5))
    lines = [f'project dst "DST" {start.isoformat()} +2w {{', f"  now {start.isoformat()}", "}",
             'resource n "Night" { workinghours mon - sun 00:00 - 06:00 }',
             f'task m0 "M0" {{ start {d0.isoformat()} milestone }}']
    for i, h in enumerate(sorted({hour, (hour + 1) % 24, max(0, hour - 1), rng.randrange(0, 5)})):
        lines.append(f'task d{i} "D{i}" {{ start {d0.isoformat()}-{h:02d}:00 duration {rng.randrange(1, 3)}h }}')
        lines.append(f'task m{i + 1} "M{i + 1}" {{ start {d0.isoformat()}-{h:02d}:{_pick(rng, ["00", "30"])} milestone }}')
    lines.append(f'task e "E" {{ effort {rng.randrange(2, 6)}h allocate n start {d0.isoformat()}-00:00 }}')
    return {"text": "\n".join(lines) + "\n", "tags": ["dst"], "kind": "ok", "tz": zone}
