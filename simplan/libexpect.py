"""What the library API says about a project text, computed in a fresh fault-free forked child.

Used as the reference for the CLI contract (C19 [content]): rows of (id, start, end)
in declaration order, or the class of exception parse() raises.
"""

from __future__ import annotations

import contextlib
import hashlib
import io
import json
import os
import select
import signal

_CACHE: dict[str, dict] = {}
TIMEFMT = "%Y-%m-%d-%H:%M"


def _child(text: str, t0: float | None, wfd: int, tz: str | None = None) -> None:
    out: dict = {}
    try:
        if tz:
            import time

            os.environ["TZ"] = tz
            time.tzset()
        if t0 is not None:
            from .seams import install_datetime_seam

            install_datetime_seam(lambda: t0)
        from scriptplan.parser.tjp_parser import ProjectFileParser

        buf = io.StringIO()
        with contextlib.redirect_stderr(buf), contextlib.redirect_stdout(io.StringIO()):
            try:
                project = ProjectFileParser().parse(text)
                project.schedule()  # the CLI schedules a second time
                rows = []
                for t in project.tasks:
                    s = t.get("start", 0)
                    e = t.get("end", 0)
                    rows.append({"id": t.fullId, "start": s.strftime(TIMEFMT) if s else "", "end": e.strftime(TIMEFMT) if e else ""})
                out = {"rows": rows, "ntasks": len(rows)}
            except SystemExit as e:
                out = {"exc": "SystemExit", "code": e.code if isinstance(e.code, int) else 1}
            except Exception as e:
                out = {"exc": type(e).__name__, "msg": str(e)[:200]}
    except BaseException as e:
        out = {"harness": f"{type(e).__name__}: {e}"}
    try:
        os.write(wfd, json.dumps(out).encode())
    finally:
        os._exit(0)


def library_view(text: str, t0: float | None = None, timeout: float = 300.0, tz: str | None = None) -> dict:
    key = hashlib.sha256((repr(t0) + repr(tz) + "\0" + text).encode("utf-8", "surrogatepass")).hexdigest()
    if key in _CACHE:
        return _CACHE[key]
    r, w = os.pipe()
    pid = os.fork()
    if pid == 0:
        os.close(r)
        try:
            import ctypes

            ctypes.CDLL(None).prctl(1, signal.SIGKILL)
            import resource

            resource.setrlimit(resource.RLIMIT_AS, (6 << 30, 6 << 30))
        except Exception:
            pass
        _child(text, t0, w, tz)
        os._exit(0)
    os.close(w)
    data = b""
    res = None
    while True:
        rd, _, _ = select.select([r], [], [], timeout)
        if not rd:
            os.kill(pid, signal.SIGKILL)
            res = {"hang": True}
            break
        chunk = os.read(r, 1 << 16)
        if not chunk:
            break
        data += chunk
    os.close(r)
    os.waitpid(pid, 0)
    if res is None:
        try:
            res = json.loads(data)
        except ValueError:
            res = {"harness": "library child died without an answer"}
    _CACHE[key] = res
    return res
